#!/usr/bin/env python3
"""Orchestrator: python3 verif.py {setup | check <ID> [--tier quick|thorough] | replay <path> | selftest}"""
import argparse
import os
import sys
import traceback

sys.path.insert(0, os.path.dirname(os.path.abspath(__file__)))
from vlib import core  # noqa: E402


def checks():
    from vlib import fam_import, fam_chroot, fam_frontend, fam_compile, fam_seq, fam_eval, fam_ints, fam_datamodel, fam_relmod, fam_db, fam_det, fam_cli, fam_codec, fam_interop
    table = {
        "C05": fam_import.check_c05,
        "C06": fam_import.check_c06,
        "C18": fam_chroot.check_c18,
        "C02": fam_frontend.check_c02,
        "C08": fam_frontend.check_c08,
        "C03": fam_frontend.check_c03,
        "C04": fam_frontend.check_c04,
        "C01": fam_compile.check_c01,
        "C13": fam_seq.check_c13,
        "C10": fam_eval.check_c10,
        "C14": fam_ints.check_c14,
        "C15": fam_datamodel.check_c15,
        "C17": fam_relmod.check_c17,
        "C16": fam_db.check_c16,
        "C19": fam_det.check_c19,
        "C07": fam_det.check_c07,
        "C09": fam_codec.check_c09,
        "C11": fam_interop.check_c11,
        "C12": fam_interop.check_c12,
        "C20": fam_cli.check_c20,
    }
    for mod, names in OPTIONAL:
        try:
            m = __import__("vlib." + mod, fromlist=["x"])
        except ImportError:
            continue
        for pid, fn in names.items():
            table[pid] = getattr(m, fn)
    return table


OPTIONAL = []


def main():
    ap = argparse.ArgumentParser()
    sub = ap.add_subparsers(dest="cmd", required=True)
    sub.add_parser("setup")
    c = sub.add_parser("check")
    c.add_argument("pid")
    c.add_argument("--tier", default=os.environ.get("VERIF_TIER", "quick"), choices=["quick", "thorough"])
    r = sub.add_parser("replay")
    r.add_argument("path")
    sub.add_parser("selftest")
    a = ap.parse_args()
    seed = int(os.environ.get("VERIF_SEED", "1") or 1)
    try:
        if a.cmd == "setup":
            from vlib import setup
            return setup.run()
        if a.cmd == "check":
            fn = checks().get(a.pid)
            if fn is None:
                print("no check for", a.pid)
                return 2
            return fn(core.Ctx(a.pid, a.tier, seed))
        if a.cmd == "replay":
            from vlib import replay
            return replay.run(a.path, seed)
        if a.cmd == "selftest":
            from vlib import selftest
            return selftest.run(seed)
    except core.Infra as ex:
        print("INFRASTRUCTURE FAILURE (not a verdict): %s" % ex)
        return 2
    except Exception:
        traceback.print_exc()
        print("INFRASTRUCTURE FAILURE (not a verdict): internal error")
        return 2


if __name__ == "__main__":
    sys.exit(main())
