#!/usr/bin/env python3
"""Triage helper (not a check): show, for scenarios of a finished interop run, the texts and the facts.
usage: iotriage.py <workdir> <substring of signature>  — prints up to 2 example scenarios for matching violations"""
import glob, json, sys, os
work, pat = sys.argv[1], sys.argv[2]
n = int(sys.argv[3]) if len(sys.argv) > 3 else 1
viol = json.load(open(os.path.join(work, "violations.json")))
ev = {}
for f in [os.path.join(work, "events.ndjson")]:
    for l in open(f):
        try:
            e = json.loads(l)
        except ValueError:
            continue
        ev.setdefault(e["t"], []).append(e)
import re
shown = 0
seen = set()
for v in viol:
    if pat not in v["sig"] or v["sig"] in seen:
        continue
    seen.add(v["sig"])
    m = re.search(r"e\.g\. (\[.*?\])\)", v["what"])
    print("=" * 100)
    print(v["sig"])
    print(v["what"][:300])
    mt = re.match(r"scenario (\d+)", v["what"])
    es = ev.get(int(mt.group(1))) if mt else None
    if es:
        for e in es[1:]:
            if e["e"] != "stage":
                print("  ", e)
                continue
            print("--- stage", e["name"], "ok" if e["ok"] else "FAIL: " + e.get("msg", "")[:500])
            if e.get("text") and e["name"] in ("render", "import", "export", "compile"):
                print(e["text"][:2500])
            if e.get("facts") is not None:
                print("facts:", json.dumps(e["facts"])[:1500])
    shown += 1
    if shown >= n:
        break
