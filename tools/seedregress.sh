#!/bin/bash
# tools/seedregress.sh <seed name> : applies seeded/<name>/patch.diff to a scratch worktree of /repo HEAD and runs the quick
# check of its property there (own work directory); prints one line: <name> detected|MISSED|noapply|infra <signatures>
set -u
export GOFLAGS=-mod=mod GOPROXY=off GOSUMDB=off GOTOOLCHAIN=local
N=$1; P=${N:0:3}
WT=/root/scratch/srwt.$N
git -C /repo worktree add -f -q $WT HEAD 2>/dev/null || { echo "$N infra worktree"; exit 0; }
trap 'git -C /repo worktree remove --force $WT; rm -rf /root/scratch/srwork.$N' EXIT
if ! git -C $WT apply /verif/seeded/$N/patch.diff 2>/dev/null; then echo "$N noapply"; exit 0; fi
if ! ( cd $WT && go build ./... ) >/dev/null 2>&1; then echo "$N nobuild"; exit 0; fi
OUT=$( cd /verif && VERIF_WORK=/root/scratch/srwork.$N VERIF_REPO=$WT python3 verif.py check $P --tier quick 2>&1 )
if echo "$OUT" | grep -q "^VIOLATION"; then echo "$N detected $(echo "$OUT" | grep 'signature:' | head -2 | sed 's/.*signature: //' | tr '\n' ' ')";
elif echo "$OUT" | grep -q "INFRASTRUCTURE"; then echo "$N infra $(echo "$OUT" | grep INFRA | head -1 | cut -c1-120)";
else echo "$N MISSED"; fi
