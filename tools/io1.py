#!/usr/bin/env python3
"""Dev helper: run one interop scenario through the driver and print texts + facts.
usage: io1.py <fmt> <dir> '<doc json or @file>' [enc] [via]"""
import json, subprocess, sys, os, tempfile
fmt, direction, doc = sys.argv[1:4]
enc = sys.argv[4] if len(sys.argv) > 4 else "yaml"
via = sys.argv[5] if len(sys.argv) > 5 else ""
doc = json.load(open(doc[1:])) if doc.startswith("@") else json.loads(doc)
d = tempfile.mkdtemp(dir="/root/scratch")
sc = {"id": 1, "doc": doc, "dir": direction, "fmt": fmt, "enc": enc, "via": via, "seed": 1, "tmp": d}
open(d + "/in.ndjson", "w").write(json.dumps(sc) + "\n")
p = subprocess.run([os.environ.get("VH", "/root/scratch/vh"), "interop", "-in", d + "/in.ndjson", "-out", d + "/out.ndjson"], capture_output=True, text=True)
if p.returncode:
    print("DRIVER EXIT", p.returncode, p.stderr[:1500])
for l in open(d + "/out.ndjson"):
    e = json.loads(l)
    if e["e"] != "stage":
        continue
    print("--- stage", e["name"], "ok" if e["ok"] else "FAIL: " + e.get("msg", "")[:600])
    if e.get("text"):
        print(e["text"])
    if e.get("facts") is not None:
        for f in e["facts"]:
            print("   ", f)
