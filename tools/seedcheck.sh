#!/bin/bash
# tools/seedcheck.sh <seed dir with patch.diff, demo/, meta.json> <demo target dir rel to repo> "<demo go test cmd>" <check ids...>
# Verifies a seeded change in a scratch worktree of /repo HEAD: demo fails with it, passes without; runs the checks on it.
set -u
export GOFLAGS=-mod=mod GOPROXY=off GOSUMDB=off GOTOOLCHAIN=local
SEED=$1; DEMOCMD=$2; shift 2
WT=/root/scratch/seedwt.$$
git -C /repo worktree add -f -q $WT HEAD || exit 2
trap 'git -C /repo worktree remove --force $WT' EXIT
if [ -n "${DEMODST:-}" ]; then mkdir -p $WT/$DEMODST; cp $SEED/demo/*.go $WT/$DEMODST/; else
( cd $SEED/demo && find . -type f -name '*.go' ) | while read f; do mkdir -p $WT/$(dirname $f); cp $SEED/demo/$f $WT/$f; done; fi
echo "== demo WITHOUT patch (expect pass)"; ( cd $WT && eval "$DEMOCMD" 2>&1 | tail -5 )
git -C $WT apply $SEED/patch.diff || { echo "patch does not apply"; exit 2; }
echo "== go build with patch"; ( cd $WT && go build ./... && echo build ok )
echo "== demo WITH patch (expect fail)"; ( cd $WT && eval "$DEMOCMD" 2>&1 | tail -8 )
( cd $WT && find . -name 'zz_seed*' -delete )
[ -n "${NOCHECK:-}" ] && exit 0
for c in "$@"; do
  echo "== check $c on seeded tree"
  ( cd /verif && VERIF_WORK=/root/scratch/seedrun.work VERIF_REPO=$WT python3 verif.py check $c --tier quick 2>&1 | grep -E "VIOLATION|KNOWN|signature|INFRA|^\[C" | head -12 )
done
