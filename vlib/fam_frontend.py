"""C02, C03, C04, C08 (and the generator for C01): the declaration machine (spec/Frontend*.tla)."""
import json

from . import core
from .core import log

ASSUME = [
    "the abstract declaration vocabulary of Frontend.tla covers: applications (namespaced, long names, tags, string attributes, annotations), "
    "tuple/table/enum/union/alias types, fields over all documented primitives with size, optionality, set/sequence wrapping, local, field and "
    "cross-application references, primary keys, simple endpoints with parameters, REST paths nested three deep with path and query parameters, "
    "events and subscriptions, every statement kind and block kind; constructs outside it (views, facades, in-place tuples, collectors, "
    "mixins with endpoints) are not generated",
    "the harness renderer (internal/render) and projector (internal/project) are trusted translators; the projector reports every part of the "
    "module and anything unclassified as an 'other' fact",
    "values implied by a documented constraint (int32/int64 range, decimal length) are not compared",
]


def programs(ctx, n, seed_off=0, variants=0, cfg="GenFrontend.cfg"):
    scn = core.generate(ctx, "FrontendGen", cfg, num=n, depth=400, seed=ctx.seed * 100 + seed_off, timeout=1800)
    out = []
    for i, s in enumerate(scn):
        out.append({"id": i + 1, "decls": s["decls"], "seed": ctx.seed, "variants": variants, "text": False})
    return out


def run_programs(ctx, scn):
    raw, _ = core.vh_sharded(ctx, "frontend", scn, timeout=3000, resilient=True)
    # the driver announces every program before it compiles it; a process that dies there (logrus.Fatal in the library,
    # stack exhaustion) leaves `start` followed by the orchestrator's `fatal`: a run with no result, which no action of
    # the trace specification explains
    events = []
    for i, e in enumerate(raw):
        if e["e"] == "start":
            if i + 1 < len(raw) and raw[i + 1]["e"] == "fatal" and raw[i + 1]["t"] == e["t"]:
                events.append({"t": e["t"], "e": "begin", "seed": 0})
            continue
        events.append(e)
    prints, nev, _ = core.validate(ctx, "FrontendTrace", "FrontendTrace.cfg", events, chunk=25000)
    return events, prints, nev


def collect(prints):
    verdict, diffs, rejects = {}, {}, {}
    for kind, p in prints:
        if kind == "VERDICT":
            verdict.setdefault(p["t"], set()).update(p["what"])
        elif kind in ("DIFF", "LOCDIFF"):
            diffs.setdefault(p["t"], []).append((kind, p["what"]))
        elif kind == "REJECT":
            rejects[p["t"]] = p["what"]
    return verdict, diffs, rejects


def coverage_counts(scn):
    kinds, shapes = set(), set()
    for s in scn:
        scope = []
        for d in s["decls"]:
            if d["k"] == "end":
                if scope:
                    scope.pop()
                continue
            kinds.add((d["k"], d.get("kind") or d.get("kw") or "", scope[-1] if scope else "top"))
            if "sh" in d:
                sh = d["sh"]
                shapes.add((sh["p"] or "ref%d" % len(sh["ref"]), len(sh["size"]), sh["opt"], sh["wrap"]))
            if d["k"] in ("app", "type", "inplace", "ep", "event", "sub", "rest", "method", "block", "oneof", "choice"):
                scope.append(d["k"] if d["k"] != "block" else d["kw"])
    return len(kinds), len(shapes)


def _sig_of(pid, names):
    # identifiers are replaced by roles: keep the fact kind only
    return pid + "/" + "+".join(sorted(names))


def _mc(ctx):
    return core.model_check(ctx, "FrontendGen", "MCFrontend.cfg" if ctx.quick() else "MCFrontend6.cfg", timeout=2400)


def _known_pairs(missing, spurious):
    """Removes fact pairs explained by a known-finding class; returns (rest_missing, rest_spurious, classes)."""
    classes = set()
    m = [tuple(x) for x in missing]
    sp = [tuple(x) for x in spurious]
    for x in list(m):
        # documented primitive xml compiled as a reference
        y = x[:-1] + (x[-1].replace("xml", "ref:xml"),)
        if "xml" in x[-1] and y in sp:
            m.remove(x)
            sp.remove(y)
            classes.add("documented-primitive-xml-compiled-as-reference")
            continue
        # a path variable's reference to a type of another application compiled as a dotted local path
        if x[0] == "urlparam" and x[-1].startswith("ref:") and "/" in x[-1]:
            y = x[:-1] + (x[-1].replace(" :: ", ".").replace("/", ".", 1),)
            if y in sp:
                m.remove(x)
                sp.remove(y)
                classes.add("path-variable-cross-application-reference-folded")
                continue
        # wrapped U.x compiled as application U, type x
        if "(ref:" in x[-1]:
            cand = [z for z in sp if z[:-1] == x[:-1] and z[-1].replace("/", ".") == x[-1].replace("/", ".")]
            if cand:
                m.remove(x)
                sp.remove(cand[0])
                classes.add("wrapped-field-reference-compiled-as-application-reference")
    return m, sp, classes


def _sub_before_event(decls, src, name):
    """True if a subscription to (src, name) is declared before the event's own declaration in app src."""
    app = None
    sub_seen = False
    for d in decls:
        if d["k"] == "app":
            app = d["name"]
        elif d["k"] == "sub" and d["src"] == src and d["name"] == name:
            sub_seen = True
        elif d["k"] == "event" and app == src and d["name"] == name:
            return sub_seen
    return False


def _judge(ctx, pid, scn, events, prints, want):
    verdict, diffs, rejects = collect(prints)
    traces = core.split_traces(events)
    by_id = {s["id"]: s for s in scn}
    for t in by_id:
        names = {n for n in verdict.get(t, set()) if want(n)}
        if t in rejects:
            names.add("NoResult:" + str(rejects[t]))
        if not names:
            continue
        classes = set()
        rest = []
        for kind, w in diffs.get(t, []):
            if kind == "DIFF":
                m, sp, cl = _known_pairs(w["missing"], w["spurious"])
                classes |= cl
                if m or sp:
                    rest.append((kind, {"missing": m[:4], "spurious": sp[:4]}))
                    names = {n for n in names if not n.startswith(("Missing:", "Spurious:"))}
                    names |= {"Missing:" + x[0] for x in m} | {"Spurious:" + x[0] for x in sp}
                else:
                    names = {n for n in names if not n.startswith(("Missing:", "Spurious:"))}
            else:
                # known: an event endpoint first created by an earlier subscriber records no location
                # for its own later declaration
                subs, seen_sub = set(), set()
                for d in by_id[t]["decls"]:
                    if d["k"] == "sub":
                        seen_sub.add((d["src"], d["name"]))
                    elif d["k"] == "event":
                        pass
                missing = [x for x in w["missing"]]
                keep = []
                for x in missing:
                    if x[1] == "ep" and (x[2], x[3]) in seen_sub and _sub_before_event(by_id[t]["decls"], x[2], x[3]):
                        classes.add("event-created-by-subscriber-has-no-location")
                    else:
                        keep.append(x)
                if keep or w["spurious"]:
                    rest.append((kind, {"missing": keep[:4], "spurious": w["spurious"][:4]}))
                    names = {n for n in names if not n.startswith("Loc:")} | {"Loc:" + x[1] for x in keep + list(w["spurious"])}
                else:
                    names = {n for n in names if not n.startswith("Loc:")}
        rep = {"family": "frontend", "scenario": by_id[t],
               "trace": [e for e in traces.get(t, []) if e["e"] != "decl"][:6]}
        for cl in classes:
            if (pid == "C08") != cl.startswith("event-created"):
                continue
            if pid not in ("C02", "C08"):
                continue
            core.add_violation(ctx, pid + "/" + cl, "program %d: %s" % (t, cl), rep)
        names = {n for n in names if want(n) or n.startswith(("NoResult:", "Loc:"))}
        if names:
            what = "program %d: %s; differences: %s" % (t, sorted(names), json.dumps(rest)[:900])
            core.add_violation(ctx, _sig_of(pid, names), what, rep)


def check_c02(ctx):
    core.build_vh(ctx)
    mc = _mc(ctx)
    scn = programs(ctx, 350 if ctx.quick() else 4000)
    nadded = with_namesake_app(scn)
    # call-graph programs whose calls may dangle: judged like the others, and the linter's warnings are compared with
    # the dangling calls the specification computes (beyond the listed properties: reported, no verdict)
    calls = programs(ctx, 60 if ctx.quick() else 600, seed_off=22, cfg="GenCalls.cfg")
    for i, s in enumerate(scn):
        s["reprint"] = i % 4 == 0     # beyond the listed properties: printed back by pkg/printer and compiled again
    for s in calls:
        s["id"] += len(scn)
        s["lint"] = True
    scn = scn + calls
    # REST path trees: 0..7 inherited path variables, then sibling sub-paths with a variable and a method each
    trees = core.generate(ctx, "RestTreeGen", "GenRestTree.cfg", timeout=600)
    scn = scn + [{"id": len(scn) + i + 1, "decls": t["decls"], "seed": ctx.seed, "variants": 0, "text": False} for i, t in enumerate(trees)]
    # programs with re-opened types in which a later block declares an earlier field again, with another type
    _, redecl, _ = split_scenarios(ctx, 30 if ctx.quick() else 400, 23, 1)
    nredecl = with_redeclared_fields(redecl, vary=True)
    for s in redecl:
        s["id"] += len(scn)
    scn = scn + redecl
    events, prints, nev = run_programs(ctx, scn)
    _judge(ctx, "C02", scn, events, prints,
           lambda n: n.startswith(("Missing:", "Spurious:")) or n in ("Rejected", "IllFormedProgram"))
    for kind, p in prints:
        if kind == "EXTRA" and "reprint" in p["what"]:
            w = p["what"]
            if "PrintedTextDoesNotCompile" in w["reprint"]:
                core.add_extra(ctx, "printer/PrintedTextDoesNotCompile", "program %d printed back by pkg/printer does not compile" % p["t"])
            else:
                for k in sorted(w["reprint"]):
                    core.add_extra(ctx, "printer/" + k, "program %d printed back by pkg/printer and compiled again, e.g. %s" % (p["t"], json.dumps(w["example"])[:200]))
            continue
        if kind == "EXTRA":
            w = p["what"]
            role = "+".join(sorted({"missing:" + x[0] for x in w["missing"]} | {"spurious:" + x[0] for x in w["spurious"]}))
            core.add_extra(ctx, "linter/" + role, "program %d: expected but not warned %s; warned but not dangling %s" %
                           (p["t"], json.dumps(w["missing"])[:200], json.dumps(w["spurious"])[:200]))
    nk, ns = coverage_counts(scn)
    cov = {"states": mc.distinct, "transitions": mc.generated, "traces_validated_against_impl": len(scn),
           "trace_events": nev, "declarations": sum(len(s["decls"]) for s in scn),
           "distinct_declaration_kind_x_scope": nk, "distinct_type_shapes": ns, "programs_given_a_namesake_application": nadded,
           "programs_with_linter_warnings_compared": len(calls), "programs_printed_back_and_recompiled": sum(1 for e in events if e["e"] == "reprint"), "rest_path_trees": len(trees), "fields_declared_again_with_another_type": nredecl, "linter_warnings": sum(len(e.get("warnings", [])) for e in events if e["e"] == "lint"),
           "samples": [{"decls": scn[0]["decls"][:12]}] if scn else []}
    return core.finish(ctx, "model_checking", cov, ASSUME)


def with_namesake_app(scn):
    """Application A has a type named B.  A program that refers to a field of that type (`B.x`) and does not itself declare an
    application B gets one appended (with a type of its own), so that the resolution of `B.x` is exercised with the
    namesake application present; the specification judges the extended program like any other."""
    nopos = {"file": "", "line": 0, "col": 0}
    n = 0
    for s in scn:
        d = s["decls"]
        refs = [x for x in d if "sh" in x and x["sh"]["p"] == "" and len(x["sh"]["ref"]) > 2 and x["sh"]["ref"][0] == "" and x["sh"]["ref"][1] == "B"]
        if not refs or any(x.get("k") == "app" and x.get("name") == "B" for x in d):
            continue
        d += [{"k": "app", "name": "B", "long": "", "tags": [], "attrs": [], "pos": nopos},
              {"k": "type", "name": "W", "kind": "tuple", "tags": [], "attrs": [], "pos": nopos},
              {"k": "field", "name": "y", "sh": {"p": "int", "ref": [], "size": [], "opt": False, "wrap": ""}, "pk": False,
               "tags": [], "attrs": [], "pos": nopos},
              {"k": "end"}, {"k": "end"}]
        n += 1
    return n


def with_redeclared_fields(scn, vary=False):
    """A later block of a re-opened tuple or table declares one of the type's earlier fields again, with the same
    type (a wrapped one if there is one): the model is unchanged and the field has one more location.  With `vary` the
    later declaration takes the type of another field declared earlier in the same application: the later type is the
    field's type (StepField in Frontend.tla)."""
    import copy
    opens = ("app", "type", "inplace", "ep", "event", "sub", "rest", "method", "block", "oneof", "choice")
    n = 0
    for s in scn:
        out, seen, stack, cur_app = [], {}, [], None
        for x in s["decls"]:
            out.append(x)
            k = x.get("k")
            if k == "app":
                cur_app = x["name"]
            if k == "type":
                key = (cur_app, x["name"])
                stack.append(key)
                prev = seen.get(key) or []
                if prev and x.get("kind") in ("tuple", "relation"):
                    cand = [f for f in prev if f["sh"].get("wrap")] or prev
                    if vary:
                        # prefer an earlier declaration that has something to leave behind: optional, sized, or a sized integer kind
                        cand = [f for f in prev if not f.get("pk") and (f["sh"].get("opt") or f["sh"].get("size") or f["sh"].get("p") in ("int32", "int64", "float32", "float64"))] or cand
                    again = copy.deepcopy(cand[0])
                    again["pos"] = {"file": "", "line": 0, "col": 0}
                    if vary and not again.get("pk"):
                        others = [f for key2, fs in seen.items() if key2[0] == cur_app for f in fs
                                  if f["sh"] != again["sh"] and not f.get("pk")]
                        if others:
                            again["sh"] = copy.deepcopy(others[n % len(others)]["sh"])
                    out.append(again)
                    n += 1
            elif k in opens:
                stack.append(None)
            elif k == "field" and stack and stack[-1] is not None:
                seen.setdefault(stack[-1], []).append(x)
            elif k == "end" and stack:
                stack.pop()
        s["decls"] = out
    return n


def check_c08(ctx):
    core.build_vh(ctx)
    mc = _mc(ctx)
    scn = programs(ctx, 250 if ctx.quick() else 3000, seed_off=8)
    # multi-file: the same partitions as C04 (re-opened applications and types in imported files)
    _, scn2, _ = split_scenarios(ctx, 40 if ctx.quick() else 600, 9, 4)
    for s in scn2:
        s["id"] += len(scn)
    scn = scn + scn2
    nredecl = with_redeclared_fields(scn)
    events, prints, nev = run_programs(ctx, scn)
    _judge(ctx, "C08", scn, events, prints, lambda n: n.startswith("Loc") or n in ("Rejected",))
    nloc = sum(len(e["facts"]) for e in events if e["e"] == "locs")
    cov = {"states": mc.distinct, "transitions": mc.generated, "traces_validated_against_impl": len(scn),
           "trace_events": nev, "locations_compared": nloc, "fields_declared_again_in_a_reopened_type": nredecl,
           "samples": [[e for e in events if e["e"] == "locs"][0]["facts"][:8]] if scn else []}
    return core.finish(ctx, "model_checking", cov, ASSUME + [
        "tracked elements: applications, types, fields, endpoints (simple, REST method, event, subscription) and statements; "
        "the renderer writes each element at a column it records, with tabs counted as one character"])


def corpus_files():
    import os
    repo = core.repo_dir()
    out = []
    for root, dirs, files in os.walk(repo):
        dirs[:] = [d for d in dirs if d not in (".git", "node_modules")]
        for f in files:
            if f.endswith(".sysl"):
                out.append(os.path.relpath(os.path.join(root, f), repo))
    return sorted(out)


def check_c03(ctx):
    import random
    quick = ctx.quick()
    core.build_vh(ctx)
    mc = core.model_check(ctx, "Lexer", "MCLexer4.cfg" if quick else "MCLexer.cfg", timeout=1800)
    # layer 2: the real lexer against Lexer.tla on enumerated skeletons
    skel = core.generate(ctx, "LexerGen", "GenLexer3.cfg" if quick else "GenLexer4.cfg", timeout=1800)
    lev, _ = core.vh_sharded(ctx, "lexer", skel, timeout=1800)
    for i, e in enumerate(lev):
        e["t"] = i + 1
    lprints, _, _ = core.validate(ctx, "LexerTrace", "LexerTrace.cfg", lev, chunk=30000)
    by_t = {e["t"]: e for e in lev}
    for kind, p in lprints:
        if kind == "VERDICT":
            e = by_t[p["t"]]
            core.add_violation(ctx, "C03/TokenStream", "lexer token stream differs from Lexer.tla for %r: got %s" %
                               (e["text"], e["toks"]), {"family": "lexer", "scenario": {"lines": e["lines"]}})
    # layer 3a: generated programs under layout variants
    scn = programs(ctx, 150 if quick else 2500, seed_off=3, variants=6)
    events, prints, nev = run_programs(ctx, scn)
    _judge(ctx, "C03", scn, events, prints, lambda n: n.startswith("Layout"))
    # layer 3b: the repository's corpus under TLC-enumerated compositions of transformations
    comps = core.generate(ctx, "LayoutGen", "GenLayout.cfg")
    files = corpus_files()
    rng = random.Random(ctx.seed)
    lscn = []
    for i, f in enumerate(files):
        ops = rng.sample(comps, 3 if quick else 12)
        lscn.append({"id": i + 1, "repo": core.repo_dir(), "file": f, "ops": ops, "seed": ctx.seed})
    if quick:
        lscn = rng.sample(lscn, min(len(lscn), 140))
        for i, s in enumerate(lscn):
            s["id"] = i + 1
    cev, _ = core.vh_sharded(ctx, "layout", lscn, timeout=3000)
    cprints, cnev, _ = core.validate(ctx, "FrontendTrace", "FrontendTrace.cfg", cev, chunk=25000)
    verdict, _, rejects = collect(cprints)
    by_id = {s["id"]: s for s in lscn}
    cbt = core.split_traces(cev)
    for t, names in verdict.items():
        names = {n for n in names if n.startswith("Layout")}
        if not names:
            continue
        badv = [e for e in cbt[t] if e["e"] == "variant" and (e["accepted"] != e["baseaccepted"] or e["digest"] != e["base"])]
        what = "corpus file %s: %s under %s" % (by_id[t]["file"], sorted(names), json.dumps([e["ops"] for e in badv][:3]))
        core.add_violation(ctx, "C03/corpus/" + "+".join(sorted(names)) + "/" + by_id[t]["file"], what,
                           {"family": "layout", "scenario": by_id[t]})
    nvar = sum(1 for e in events if e["e"] == "variant") + sum(1 for e in cev if e["e"] == "variant")
    cov = {"states": mc.distinct, "transitions": mc.generated,
           "traces_validated_against_impl": len(lev) + len(scn) + len(lscn),
           "lexer_skeletons": len(lev), "generated_programs": len(scn), "corpus_files": len(lscn),
           "corpus_files_accepted": sum(1 for e in cev if e["e"] == "begin" and e["baseaccepted"]),
           "layout_variants_compiled": nvar, "compositions_enumerated": len(comps),
           "samples": [lev[0], [e for e in cev if e["e"] == "variant"][0]] if lev and cev else []}
    return core.finish(ctx, "model_checking", cov, ASSUME + [
        "physical lines that begin inside a multi-line token (found from the real lexer's token extents) are content, not layout, and are left alone",
        "a corpus file that does not compile as it stands contributes only the acceptance half"])


OPENERS = {"app", "type", "inplace", "ep", "event", "sub", "rest", "method", "block", "oneof", "choice"}


def split_blocks(decls):
    blocks, cur, depth = [], [], 0
    for d in decls:
        cur.append(d)
        if d["k"] == "end":
            depth -= 1
        elif d["k"] in OPENERS:
            depth += 1
        if depth == 0:
            blocks.append(cur)
            cur = []
    return blocks


# (names on both sides of "main.sysl" in alphabetical order: the order of compilation is not the order of the names)
FILE_NAMES = ["main.sysl"] + [("part%d.sysl" if i % 2 else "an%d.sysl") % i for i in range(1, 40)]


def apply_plan(decls, plan):
    """Distributes the top-level blocks over main.sysl / part1..3.sysl in the plan's import graph; returns the declaration
    sequence in the order the spec says the compiler processes the files (plan["order"], see FileOrder in FrontendGen.tla)."""
    blocks = split_blocks(decls)
    out = []
    for f in plan["order"]:
        out.append({"k": "file", "name": FILE_NAMES[f]})
        for g in plan["imports"][f]:
            out.append({"k": "import", "name": FILE_NAMES[g][:-5]})
        for b, pf in zip(blocks, plan["files"]):
            if pf == f:
                out.extend(b)
    return out


def split_scenarios(ctx, n, seed_off, maxplans):
    gen = core.generate(ctx, "FrontendGen", "GenFrontendSplit.cfg", num=n, depth=400,
                        seed=ctx.seed * 100 + seed_off, timeout=2400)
    scn, group = [], {}
    for gi, g in enumerate(gen):
        nb = len(split_blocks(g["decls"]))
        joined = {"files": [0] * nb, "imports": [[]], "order": [0]}
        # TLC lists the small graphs first: take the plans with the most files first, so that the graphs in which the
        # depth-first file order differs from other traversals are among those compiled
        split = sorted([p for p in g["plans"] if any(p["files"])], key=lambda p: -len(p["order"]))
        plans = [joined] + split
        plans = plans[:maxplans]
        for pi, plan in enumerate(plans):
            sid = len(scn) + 1
            scn.append({"id": sid, "decls": apply_plan(g["decls"], plan), "seed": ctx.seed,
                        "variants": 0, "text": False, "plan": plan, "program": gi})
            group.setdefault(gi, []).append(sid)
        if gi % 3 == 0:
            # a wide fan-out: every block in a file of its own, all imported by the root one after the other (the program
            # is padded with small applications to at least thirteen blocks; the joined form has the same padding)
            nopos = {"file": "", "line": 0, "col": 0}
            padded = list(g["decls"])
            for k in range(max(0, 13 - nb)):
                padded += [{"k": "app", "name": "Pad%d" % k, "long": "", "tags": [], "attrs": [], "pos": nopos},
                           {"k": "ep", "name": "Ep", "long": "", "params": [], "tags": [], "attrs": [], "pos": nopos},
                           {"k": "stmt", "kind": "action", "text": "do it", "tags": [], "attrs": [], "pos": nopos},
                           {"k": "end"}, {"k": "end"}]
            n = len(split_blocks(padded))
            wide = {"files": list(range(n)), "imports": [list(range(1, n))] + [[] for _ in range(n - 1)], "order": list(range(n))}
            key = "wide%d" % gi
            for plan in ({"files": [0] * n, "imports": [[]], "order": [0]}, wide):
                sid = len(scn) + 1
                scn.append({"id": sid, "decls": apply_plan(padded, plan), "seed": ctx.seed, "variants": 0, "text": False, "plan": plan, "program": gi})
                group.setdefault(key, []).append(sid)
    # a dedicated program: one table whose key fields are spread over three blocks of its application (the shape of
    # fix e99193e), joined and in every order of three files
    nopos = {"file": "", "line": 0, "col": 0}
    ish = {"p": "int", "ref": [], "size": [], "opt": False, "wrap": ""}

    def blk(fields):
        out = [{"k": "app", "name": "A", "long": "", "tags": [], "attrs": [], "pos": nopos},
               {"k": "type", "name": "T", "kind": "relation", "tags": [], "attrs": [], "pos": nopos}]
        for n, pk in fields:
            out.append({"k": "field", "name": n, "sh": ish, "pk": pk, "tags": [], "attrs": [], "pos": nopos})
        return out + [{"k": "end"}, {"k": "end"}]
    keys = blk([("a", True), ("b", False)]) + blk([("c", True)]) + blk([("d", False), ("e", True)])
    plans = [{"files": [0, 0, 0], "imports": [[]], "order": [0]},
             {"files": [0, 1, 2], "imports": [[1, 2], [], []], "order": [0, 1, 2]},
             {"files": [0, 1, 2], "imports": [[2, 1], [], []], "order": [0, 2, 1]},
             {"files": [0, 1, 1], "imports": [[1], []], "order": [0, 1]}]
    for plan in plans:
        sid = len(scn) + 1
        scn.append({"id": sid, "decls": apply_plan(keys, plan), "seed": ctx.seed, "variants": 0, "text": False, "plan": plan, "program": "keys"})
        group.setdefault("keys", []).append(sid)
    return gen, scn, group


def check_c04(ctx):
    quick = ctx.quick()
    core.build_vh(ctx)
    mc = _mc(ctx)
    gen, scn, group = split_scenarios(ctx, 120 if quick else 1200, 4, 4 if quick else 7)
    nforms = len(scn)
    events, prints, nev = run_programs(ctx, scn)
    _judge(ctx, "C04", scn, events, prints,
           lambda n: n.startswith(("Missing:", "Spurious:")) or n in ("Rejected", "IllFormedProgram"))
    # the relation itself: every partition of one program compiles to the same model as the joined form
    facts = {}
    for e in events:
        if e["e"] == "state":
            facts[e["t"]] = sorted(tuple(f) for f in e["facts"] if f[0] != "import")
    by_id = {s["id"]: s for s in scn}
    for gi, ids in group.items():
        base = facts.get(ids[0])
        for sid in ids[1:]:
            if base is not None and sid in facts and facts[sid] != base:
                a, b = set(base), set(facts[sid])
                lost, extra = sorted(a - b)[:3], sorted(b - a)[:3]
                kinds = sorted({x[0] for x in (a - b)} | {x[0] for x in (b - a)})
                core.add_violation(ctx, "C04/SplitDiffers/" + "+".join(kinds),
                                   "program %s: partition %s differs from the joined form: lost %s, extra %s" %
                                   (gi, by_id[sid]["plan"], lost, extra),
                                   {"family": "frontend", "scenario": by_id[sid], "joined": by_id[ids[0]]})
    cov = {"states": mc.distinct, "transitions": mc.generated, "traces_validated_against_impl": len(scn),
           "trace_events": nev, "programs": len(gen), "partitions_compiled": nforms,
           "max_blocks": max((len(s["plan"]["files"]) for s in scn), default=0),
           "import_graphs": len({json.dumps(s["plan"]["imports"]) for s in scn}),
           "samples": [{"plan": scn[1]["plan"], "decls": scn[1]["decls"][:10]}] if len(scn) > 1 else []}
    return core.finish(ctx, "model_checking", cov, ASSUME + [
        "partitions move whole top-level blocks (re-opened applications with their types, endpoints, REST trees, events) between "
        "up to four files in star, chain, nested, diamond and cyclic import graphs (the file order is FileOrder of FrontendGen.tla: depth-first, each file once), and for every third program one file per block, thirteen or more, all imported by the root; blocks that append to the same statement list keep their relative order",
        "fields of one tuple/table are split when the generator re-opens the type in a later block"])
