"""C20: every command ends with output or an error (spec/Command*.tla), driven through the sysl binary."""
import json
import os
import re
import shutil
import subprocess
from concurrent.futures import ThreadPoolExecutor

from . import core, fam_frontend, fam_seq

UNTIDY = {
    "dangling-call-app": "A:\n    e:\n        Nowhere <- e\n",
    "dangling-call-endpoint": "A:\n    e:\n        B <- missing\nB:\n    e:\n        ...\n",
    "call-cycle": "A:\n    e:\n        B <- e\nB:\n    e:\n        A <- e\n",
    "self-call": "A:\n    e:\n        . <- e\n",
    "dangling-type-ref": "A:\n    !type T:\n        f <: Missing\n        g <: Other.Missing\n    /x:\n        GET:\n            return ok <: Missing\n",
    "cyclic-type-refs": "A:\n    !type T:\n        u <: U\n    !type U:\n        t <: T\n    /x:\n        GET:\n            return ok <: T\n",
    "recursive-type": "A:\n    !type T:\n        next <: T?\n        kids <: sequence of T\n    /x:\n        POST (b <: T [~body]):\n            return ok <: T\n",
    "table-ref-to-nontable": "A:\n    !type T:\n        f <: int\n    !table R:\n        id <: int [~pk]\n        t <: T.f\n",
    "table-ref-whole-type": "A:\n    !table R:\n        id <: int [~pk]\n    !table S:\n        id <: int [~pk]\n        r <: R\n",
    "table-ref-dangling": "A:\n    !table R:\n        id <: int [~pk]\n        x <: Missing.id\n",
    "table-ref-cycle": "A:\n    !table R:\n        id <: int [~pk]\n        s <: S.id\n    !table S:\n        id <: int [~pk]\n        r <: R.id\n",
    "empty-app": "A:\n    ...\nB:\n    e:\n        A <- nothing\n",
    "rest-and-simple": "A:\n    /x/{id <: int}:\n        GET ?q=string:\n            B <- e\n            return ok <: string\n    plain:\n        ...\nB:\n    e:\n        return ok\n",
    "passthrough-cycle": "A:\n    e:\n        P <- e\nP:\n    e:\n        Q <- e\nQ:\n    e:\n        P <- e\n",
    "passthrough-cycle-hidden": "A:\n    e:\n        P <- e\nP:\n    e [~hidden]:\n        Q <- e\nQ:\n    e [~hidden]:\n        P <- e\n",
    "passthrough-self-hidden": "A:\n    e:\n        P <- e\nP:\n    e [~hidden]:\n        . <- e\n",
    "human-and-hidden": "User [~human]:\n    e:\n        A <- e\nA:\n    e:\n        User <- e\n        B <- h\nB:\n    h [~hidden]:\n        A <- e\n",
    "case-variant-call": "Target:\n    e:\n        ...\nA:\n    e:\n        target <- e\n",
    "rest-call-to-simple": "A:\n    e:\n        B <- GET y\nB:\n    y:\n        ...\n",
    "enum-and-union": "A:\n    !enum E:\n        X: 1\n    !type T:\n        e <: E\n    !union U:\n        T\n        Missing\n    /u:\n        GET:\n            return ok <: U\n",
}


def _apps(text):
    return re.findall(r"(?m)^([A-Za-z][^\n:\[\"]*?)\s*(?:\"[^\"]*\")?\s*(?:\[[^\n]*\])?:\s*$", text)


def _endpoints(text):
    eps, app = [], None
    for line in text.split("\n"):
        m = re.match(r"^([A-Za-z][^\n:\[\"]*?)\s*(?:\"[^\"]*\")?\s*(?:\[[^\n]*\])?:\s*$", line)
        if m:
            app = m.group(1).strip()
            continue
        m = re.match(r"^    ([A-Za-z][A-Za-z0-9_ ]*?)(?: \(.*\))?(?: \[.*\])?:\s*$", line)
        if m and app:
            eps.append((app, m.group(1)))
    return eps


def commands(text, name):
    apps = [a.strip() for a in _apps(text) if a.strip() != "Proj"]
    eps = _endpoints(text)
    proj = "\nProj:\n    view [passthrough=[%s]]:\n%s" % (
        ", ".join('"%s"' % a for a in apps if a in ("P", "Q")), "".join("        %s\n" % a for a in apps) or "        ...\n")
    files = {"main.sysl": text + proj, "old.sysl": text + proj}
    cmds = [("pb.textpb", ["pb", "--mode", "textpb", "-o", "out.textpb", "main.sysl"], ["out.textpb"]),
            ("pb.json", ["pb", "--mode", "json", "-o", "out.json", "main.sysl"], ["out.json"]),
            ("validate", ["validate", "main.sysl"], None),
            ("ints", ["ints", "-j", "Proj", "-o", "ints_%(epname).puml", "main.sysl"], ["ints_view.puml"]),
            ("ints.epa", ["ints", "-j", "Proj", "--epa", "-o", "intsepa_%(epname).puml", "main.sysl"], ["intsepa_view.puml"]),
            ("ints.clustered", ["ints", "-j", "Proj", "--clustered", "-o", "intsc_%(epname).puml", "main.sysl"], ["intsc_view.puml"]),
            ("datamodel.direct", ["datamodel", "-d", "-o", "dm_%(epname).puml", "main.sysl"], None),
            ("datamodel.project", ["datamodel", "-j", "Proj", "-o", "dmp_%(epname).puml", "main.sysl"], None),
            ("export.proto", ["export", "-o", "out.proto", "main.sysl"], ["out.proto"]),
            ("export.spanner", ["export", "-o", "out.sql", "main.sysl"], None)]
    for app, ep in eps[:2]:
        if app == "Proj":
            continue
        cmds.append(("sd", ["sd", "-s", "%s <- %s" % (app, ep), "-o", "sd_%d.puml" % len(cmds), "main.sysl"], None))
    starts = [(a, e) for a, e in eps if a != "Proj"][:3]
    if len(starts) >= 2:
        # one diagram that starts at two endpoints, and the diagrams of a project application (one per endpoint of it)
        two = ["sd"]
        for a, e in starts[:2]:
            two += ["-s", "%s <- %s" % (a, e)]
        cmds.append(("sd.two-starts", two + ["-o", "sd2_%d.puml" % len(cmds), "main.sysl"], None))
        seq = "\nSeqProj:\n    both:\n%s    single:\n        %s <- %s\n" % (
            "".join("        %s <- %s\n" % (a, e) for a, e in starts[:2]), starts[-1][0], starts[-1][1])
        for k in files:
            files[k] += seq
        cmds.append(("sd.project", ["sd", "-a", "SeqProj", "-o", "sdp_%(epname).puml", "main.sysl"], None))
    for a in apps[:2]:
        cmds.append(("export.swagger.yaml", ["export", "-o", "sw_%d.yaml" % len(cmds), "-a", a, "main.sysl"], None))
        cmds.append(("export.swagger.json", ["export", "-o", "sw_%d.json" % len(cmds), "-a", a, "main.sysl"], None))
        cmds.append(("generate-db-scripts", ["generate-db-scripts", "-t", "t", "-o", "db", "-a", a, "main.sysl"], None))
        cmds.append(("generate-db-scripts-delta", ["generate-db-scripts-delta", "-t", "t", "-o", "dbd", "-a", a, "old.sysl", "main.sysl"], None))
    return files, cmds


def classify(stderr):
    if "fatal error:" in stderr:
        kind = "fatal"
    elif re.search(r"(?m)^panic:", stderr) or "goroutine " in stderr and "[running]" in stderr:
        kind = "panic"
    else:
        return None, None
    site = "unknown"
    for line in stderr.split("\n"):
        line = line.strip()
        if line.startswith("github.com/anz-bank/sysl/") and "syslutil.PanicOn" not in line and "syslutil.Assert" not in line:
            site = re.sub(r"\([^()]*\)$", "", line.replace("github.com/anz-bank/sysl/", ""))
            site = re.sub(r"\.func\d+(\.\d+)*$", "", site)
            break
    return kind, site


def run_cli(ctx, models, timeout=25):
    sysl = core.build_sysl(ctx)
    jobs = []
    for mi, (name, text) in enumerate(models):
        files, cmds = commands(text, name)
        for ci, (cname, argv, outs) in enumerate(cmds):
            jobs.append((mi, name, cname, argv, outs, files, len(jobs)))

    def one(job):
        mi, name, cname, argv, outs, files, ji = job
        d = os.path.join(ctx.work, "cli", "job%d" % ji)
        shutil.rmtree(d, ignore_errors=True)
        os.makedirs(os.path.join(d, "db"))
        os.makedirs(os.path.join(d, "dbd"))
        for fn, c in files.items():
            open(os.path.join(d, fn), "w").write(c)
        before = set(os.listdir(d))
        try:
            p = subprocess.run([sysl] + argv, cwd=d, stdout=subprocess.PIPE, stderr=subprocess.PIPE, timeout=timeout,
                               env=dict(os.environ, SYSL_PLANTUML="http://localhost:1"), text=True, errors="replace")
            rc, so, se, to = p.returncode, p.stdout, p.stderr, False
        except subprocess.TimeoutExpired as ex:
            rc, so, se, to = -1, "", (ex.stderr or b"").decode(errors="replace") if isinstance(ex.stderr, bytes) else (ex.stderr or ""), True
        written = set(os.listdir(d)) - before
        nfiles = len(written) + sum(len(os.listdir(os.path.join(d, x))) for x in ("db", "dbd"))
        shutil.rmtree(d, ignore_errors=True)
        kind, site = classify(se)
        ev = {"mi": mi, "model": name, "cmd": cname, "argv": argv}
        if to:
            ev.update(e="timeout")
        elif kind:
            ev.update(e=kind, site=site, msg=next((l for l in se.split("\n") if l.startswith(("panic:", "fatal error:"))), "")[:200])
        elif rc == 0:
            # a definite output file is expected only where the command names one
            ev.update(e="ok", output=True if outs is None else (nfiles > 0 or bool(so.strip())))
        else:
            msg = bool(se.strip() or so.strip())
            ev.update(e="error", status=rc, message=msg, text=(se.strip() or so.strip())[-300:])
        return ev
    with ThreadPoolExecutor(core.NCPU) as ex:
        return list(ex.map(one, jobs))


def check_c20(ctx):
    quick = ctx.quick()
    core.build_vh(ctx)
    mc = core.model_check(ctx, "Command", "MCCommand.cfg")
    progs = fam_frontend.programs(ctx, 16 if quick else 250, seed_off=20)
    calls = core.generate(ctx, "FrontendGen", "GenCalls.cfg", num=8 if quick else 120, depth=400, seed=ctx.seed * 100 + 22, timeout=2400)
    types = core.generate(ctx, "FrontendGen", "GenTypes.cfg", num=8 if quick else 120, depth=400, seed=ctx.seed * 100 + 23, timeout=2400)
    scn = [dict(p, text=True) for p in progs]
    for g in calls:
        scn.append({"id": len(scn) + 1, "decls": g["decls"], "seed": ctx.seed, "variants": 0, "text": True})   # calls left dangling on purpose
    for g in types:
        scn.append({"id": len(scn) + 1, "decls": g["decls"], "seed": ctx.seed, "variants": 0, "text": True})
    pev, _ = core.vh_sharded(ctx, "frontend", scn, timeout=3000)
    models = [("untidy:" + k, v) for k, v in sorted(UNTIDY.items())]
    for e in pev:
        if e["e"] == "begin" and "text" in e:
            models.append(("generated:%d" % e["t"], e["text"]["main.sysl"]))
    results = run_cli(ctx, models)
    events = []
    for i, r in enumerate(results):
        t = i + 1
        events.append({"t": t, "e": "start"})
        ev = dict(r, t=t)
        events.append(ev)
    prints, nev, _ = core.validate(ctx, "CommandTrace", "CommandTrace.cfg", events, chunk=60000)
    by_t = {i + 1: r for i, r in enumerate(results)}
    texts = dict(models)
    for kind, p in prints:
        r = by_t[p["t"]]
        if kind == "REJECT":
            sig = "C20/%s/%s" % (r["e"], r.get("site", ""))
            what = "`sysl %s` on model %s: %s at %s: %s\n%s" % (" ".join(r["argv"]), r["model"], r["e"], r.get("site"), r.get("msg", ""), texts[r["model"]][:600])
        elif kind == "VERDICT":
            sig = "C20/%s/%s" % (r["cmd"], "+".join(sorted(p["what"])))
            what = "`sysl %s` on model %s: %s (status %s, text %r)" % (" ".join(r["argv"]), r["model"], sorted(p["what"]), r.get("status"), r.get("text", ""))
        else:
            continue
        core.add_violation(ctx, sig, what, {"family": "cli", "model": texts[r["model"]], "argv": r["argv"]})
    outcomes = {}
    for r in results:
        outcomes[r["e"]] = outcomes.get(r["e"], 0) + 1
    cov = {"evaluations": len(results), "distinct_nontrivial": len({(r["model"], r["cmd"]) for r in results}),
           "rule": "one evaluation = one run of the sysl binary (built from the working tree) on one model with one command / option set; "
                   "distinct = different (model, command); models: %d hand-written untidy shapes and %d TLC-generated programs "
                   "(calls and type references left dangling)" % (len(UNTIDY), len(models) - len(UNTIDY)),
           "outcomes": outcomes, "commands": sorted({r["cmd"] for r in results}),
           "states": mc.distinct, "transitions": mc.generated, "traces_validated_against_impl": len(results),
           "samples": [results[0], results[len(results) // 2]]}
    return core.finish(ctx, "exploration", cov, [
        "`sysl diagram` needs a headless browser and png/svg outputs need a PlantUML server: diagrams are written as .puml text; the Mermaid generators are exercised in-process by C19",
        "a run is judged by exit status and stderr: 0 with output, or non-zero with a message; 'panic:' / 'fatal error:' / a timeout of 25 s are unexplained events",
        "import of foreign documents is covered by C11",
    ])
