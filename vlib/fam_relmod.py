"""C17: the relational model handed to transforms (spec/Relmod*.tla)."""
import json

from . import core, fam_frontend


def check_c17(ctx):
    quick = ctx.quick()
    core.build_vh(ctx)
    scn = fam_frontend.programs(ctx, 300 if quick else 4000, seed_off=17)
    deep = fam_frontend.programs(ctx, 120 if quick else 1500, seed_off=18, cfg="GenCallsDeep.cfg")
    for s in deep:
        s["id"] += len(scn)
    scn = scn + deep
    # variants with one return payload the embedded payload grammar refuses (free text for the Sysl parser): building the
    # relational form must then be refused as a whole, not succeed with the statement and its neighbours left out
    import copy
    import random
    rng = random.Random(ctx.seed * 17 + 5)
    bad_payloads = ["ok <: Thing [k=unquoted]", "ok <: Thing [~a", "ok <:", "200 <: sequence of [x]"]
    extra = []
    for s in scn:
        rets = [i for i, d in enumerate(s["decls"]) if d.get("k") == "stmt" and d.get("kind") == "ret"]
        if not rets or rng.random() > (0.5 if quick else 0.8):
            continue
        v = copy.deepcopy(s)
        v["decls"][rng.choice(rets)]["text"] = rng.choice(bad_payloads)
        v["id"] = len(scn) + len(extra) + 1
        v["refusable"] = True
        extra.append(v)
    scn = scn + extra
    events, _ = core.vh_sharded(ctx, "relmod", scn, timeout=3000)
    prints, nev, results = core.validate(ctx, "RelmodTrace", "RelmodTrace.cfg", events, chunk=20000)
    by_id = {s["id"]: s for s in scn}
    nrows = sum(len(e["rows"]) for e in events if e["e"] == "rows")
    rels = set()
    for e in events:
        if e["e"] == "rows":
            rels |= {r[0] for r in e["rows"]}
    depth = 0
    for e in events:
        if e["e"] == "rows":
            for r in e["rows"]:
                if r[0] == "stmt":
                    depth = max(depth, r[3].count(".") + 1)
    for kind, p in prints:
        t = p["t"]
        if kind == "VERDICT":
            w = p["what"]
            names = sorted(w["bad"])
            census = next(e["census"] for e in events if e["t"] == t and e["e"] == "begin")
            evs = {(r[1], r[2]) for r in census if r[0] == "event"}
            rest_missing = [r for r in w["missing"] if not (r[0] == "stmt" and (r[1], r[2]) in evs)]
            if not rest_missing and not w["spurious"] and set(names) <= {"RowMissing:stmt"}:
                sig = "C17/statements-of-event-endpoints-have-no-rows"
            else:
                if len(rest_missing) != len(w["missing"]):
                    names = sorted({"RowMissing:" + r[0] for r in rest_missing} | {n for n in names if not n.startswith("RowMissing:")})
                    w = dict(w, missing=rest_missing)
                    if not names:
                        sig = "C17/statements-of-event-endpoints-have-no-rows"
                        core.add_violation(ctx, sig, "program %d" % t, {"family": "relmod", "scenario": by_id[t]})
                        continue
                    core.add_violation(ctx, "C17/statements-of-event-endpoints-have-no-rows", "program %d" % t, {"family": "relmod", "scenario": by_id[t]})
                sig = "C17/" + "+".join(names)
            what = "program %d: %s; missing %s; not in model %s" % (t, names, json.dumps(w["missing"])[:400], json.dumps(w["spurious"])[:400])
        elif kind == "REJECT":
            sig = "C17/NoResult:" + str(p["what"])
            what = "program %d: %s" % (t, [e for e in events if e["t"] == t and e["e"] != "begin"][:2])
        else:
            continue
        core.add_violation(ctx, sig, what, {"family": "relmod", "scenario": by_id[t]})
    states = sum(r.distinct for r in results)
    cov = {"states": max(states, 1), "transitions": max(states, 1), "traces_validated_against_impl": len(scn),
           "rows_compared": nrows, "relations_seen": sorted(rels), "deepest_statement_path": depth,
           "refused": sum(1 for e in events if e["e"] == "refused"), "variants_with_refusable_payload": len(extra),
           "samples": [[e for e in events if e["e"] == "rows"][0]["rows"][:10]] if nrows else []}
    return core.finish(ctx, "model_checking", cov, [
        "the specification Relmod.tla states the census relation (rows = census of the module, statement paths distinct, same rows twice); "
        "TLC evaluates it on every recorded schema; the census itself is taken by the harness from the compiled module, independently of relmod",
        "about half of the programs with a return statement are run again with one payload replaced by text the payload grammar refuses",
        "return payloads are counted, not compared (relmod parses them into status and type); array-valued annotations, parameter rows, "
        "views and source-context relations are not compared row for row",
        "inputs: TLC-generated programs (all declaration kinds) plus call-graph programs with statements nested 5 deep",
    ])
