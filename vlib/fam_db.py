"""C16: database scripts (spec/DbCatalog*.tla, spec/DbGen.tla)."""
import json

from . import core


def _edit_kind(va, vb):
    """Names the difference between two versions by roles (for signatures), not identifiers."""
    ta = {t["name"]: {c["name"]: c for c in t["cols"]} for t in va}
    tb = {t["name"]: {c["name"]: c for c in t["cols"]} for t in vb}
    kinds = set()
    for t in tb:
        if t not in ta:
            kinds.add("addtable")
            continue
        for c, col in tb[t].items():
            old = ta[t].get(c)
            if old is None:
                kinds.add("addcol:" + ("ref" if col["ref"] else "prim"))
            elif old != col:
                if old["ref"] != col["ref"]:
                    kinds.add("addref" if col["ref"] else "dropref")
                elif col["ref"]:
                    kinds.add("retarget")
                elif old["prim"] != col["prim"] or old["size"] != col["size"]:
                    kinds.add("retype")
                if old["pk"] != col["pk"]:
                    kinds.add("togglekey")
                if old["autoinc"] != col["autoinc"]:
                    kinds.add("toggleautoinc")
        for c in ta[t]:
            if c not in tb[t]:
                kinds.add("dropcol:" + ("ref" if ta[t][c]["ref"] else "prim"))
    for t in ta:
        if t not in tb:
            kinds.add("droptable")
    return "+".join(sorted(kinds)) or "none"


def _shape(v):
    """Features of a version that matter to the known defect classes."""
    feats = set()
    cols = {(t["name"], c["name"]): c for t in v for c in t["cols"]}
    for (t, cn), c in cols.items():
        if c["ref"]:
            tgt = cols.get((c["rt"], c["rc"]))
            if tgt is not None and tgt["autoinc"]:
                feats.add("fk-to-autoinc")
            if tgt is not None and tgt["ref"]:
                feats.add("fk-to-fk")
    return feats


def check_c16(ctx):
    quick = ctx.quick()
    core.build_vh(ctx)
    gen = core.generate(ctx, "DbGen", "GenDb.cfg", num=400 if quick else 6000, depth=12, seed=ctx.seed * 100 + 16, timeout=2400)
    gen3 = core.generate(ctx, "DbGen", "GenDb3.cfg", num=100 if quick else 1500, depth=14, seed=ctx.seed * 100 + 17, timeout=2400)
    deep = core.generate(ctx, "DbGen", "GenDbDeep.cfg", num=60 if quick else 600, depth=12, seed=ctx.seed * 100 + 18, timeout=2400)
    scn = [{"id": i + 1, "versions": g["versions"], "seed": ctx.seed, "split": i % 3 == 0 and not g.get("keeporder"),
            "keeporder": bool(g.get("keeporder")), "reps": g.get("reps", 1)} for i, g in enumerate(gen + gen3 + deep)]
    events, _ = core.vh_sharded(ctx, "dbscript", scn, timeout=3000, resilient=True)
    prints, nev, results = core.validate(ctx, "DbCatalogTrace", "DbCatalogTrace.cfg", events, chunk=8000)
    by_id = {s["id"]: s for s in scn}
    nstmts = sum(len(e["stmts"]) for e in events if e["e"] == "script")
    edits = set()
    for s in scn:
        for a, b in zip(s["versions"], s["versions"][1:]):
            edits.add(_edit_kind(a, b))
    for kind, p in prints:
        s = by_id[p["t"]]
        if kind == "VERDICT":
            w = p["what"]
            names = sorted(w["bad"])
            va = s["versions"][w["a"] - 1]
            vb = s["versions"][w["b"] - 1]
            if w["script"] == "create":
                cls = "+".join(sorted(_shape(va))) or "plain"
                if s["split"]:
                    cls += "/two-files"
            elif w["script"] == "identity":
                cls = "+".join(sorted(_shape(va))) or "plain"
            else:
                cls = _edit_kind(va, vb) + ("/" + "+".join(sorted(_shape(vb))) if _shape(vb) else "")
            if s["split"] and "two-files" not in cls:
                cls += "/two-files"
            sig = "C16/%s/%s/%s" % (w["script"], "+".join(names), cls)
            what = "%s script (version %d -> %d): %s; old=%s new=%s" % (w["script"], w["a"], w["b"], names, json.dumps(va)[:500], json.dumps(vb)[:500])
        elif kind == "REJECT":
            sig = "C16/NoScript:" + str(p["what"])
            what = "scenario %d: %s" % (p["t"], [e for e in events if e["t"] == p["t"] and e["e"] == "scriptfail"][:1])
        else:
            continue
        core.add_violation(ctx, sig, what, {"family": "dbscript", "scenario": s})
    states = sum(r.distinct for r in results)
    cov = {"states": max(states, 1), "transitions": max(states, 1), "traces_validated_against_impl": len(scn),
           "scripts_interpreted": sum(1 for e in events if e["e"] == "script"), "statements_interpreted": nstmts,
           "distinct_edit_kinds": len(edits), "histories_of_three_versions": len(gen3),
           "samples": [scn[0]["versions"][:2]] if scn else []}
    return core.finish(ctx, "model_checking", cov, [
        "the DDL subset is the one the generator emits (CREATE TABLE with inline PRIMARY KEY / FOREIGN KEY constraints, ALTER TABLE ADD/DROP "
        "COLUMN, ALTER COLUMN TYPE / SET DEFAULT, ADD/DROP CONSTRAINT, CREATE/ALTER SEQUENCE, setval); anything else is an unreadable statement",
        "Postgres enabling conditions are modelled for existence and dependency order only (no data, no implicit casts); bigserial is bigint plus a sequence",
        "models: up to 4 tables, acyclic foreign keys (to keys, plain columns and other foreign keys), composite keys, autoincrement, sized strings; "
        "tables and columns are written in shuffled text order, every third history with its tables spread over two files; "
        "edits: add/drop/retype column, add/drop table, toggle key, add/drop reference, toggle autoincrement; deleted tables are not required to be dropped",
    ])
