"""Replay dispatch per family."""
from . import core


def _import(ctx, pid, rep):
    from . import fam_import
    s = dict(rep["scenario"])
    s["id"] = 1
    events, _ = core.vh(ctx, "importclosure", [s])
    events = [e for e in events if e["e"] != "start"]
    prints, _, _ = core.validate(ctx, "ImportClosureTrace", "ImportClosureTrace.cfg", events)
    fam_import._judge(ctx, pid, [s], events, prints)
    return [v["sig"] for v in ctx.violations]


def _chroot(ctx, pid, rep):
    s = dict(rep["scenario"])
    s["imports"] = True
    r = core.generate(ctx, "ChrootGen", "GenChroot5.cfg")
    match = [x for x in r if x["root"] == s["root"] and x["segs"] == s["segs"]]
    events, _ = core.vh(ctx, "chroot", match)
    prints, _, _ = core.validate(ctx, "ChrootTrace", "ChrootTrace.cfg", events)
    return ["C18/" + "+".join(sorted(p["what"])) for k, p in prints if k == "VERDICT"]


def _codec(ctx, pid, rep):
    s = dict(rep["scenario"])
    s["id"] = 1
    if s.get("cli"):
        s["cli"], s["tmp"] = core.build_sysl(ctx), ctx.sub("cli")
    if s.get("root"):
        s["root"] = core.repo_dir()
    events, _ = core.vh(ctx, "codec", [s], resilient=True)
    prints, _, _ = core.validate(ctx, "CodecTrace", "CodecTrace.cfg", events)
    out = []
    for k, p in prints:
        if k == "VERDICT":
            out.append("C09/%s/%s" % ("+".join(sorted(p["what"])), s["path"] if "path" in s else s["kind"]))
    return out


def _interop(ctx, pid, rep):
    from . import fam_interop
    s = dict(rep["scenario"])
    s["id"], s["tmp"] = 1, ctx.sub("tmp")
    events, prints, _ = fam_interop.run(ctx, pid, [s])
    fam_interop.judge(ctx, pid, [s], events, prints)
    return [v["sig"] for v in ctx.violations]


def _rerun(ctx, pid, rep):
    """Families without a single-scenario replayer: run the property's quick check again and report its signatures."""
    import verif
    fn = verif.checks()[pid]
    c2 = core.Ctx(pid, "quick", ctx.seed)
    fn(c2)
    return [v["sig"] for v in c2.violations]


REPLAY = {"importclosure": _import, "chroot": _chroot, "codec": _codec, "interop": _interop}
