"""Replay dispatch per family."""
from . import core


def _import(ctx, pid, rep):
    from . import fam_import
    s = dict(rep["scenario"])
    s["id"] = 1
    events, _ = core.vh(ctx, "importclosure", [s])
    prints, _, _ = core.validate(ctx, "ImportClosureTrace", "ImportClosureTrace.cfg", events)
    fam_import._judge(ctx, pid, [s], events, prints)
    return [v["sig"] for v in ctx.violations]


REPLAY = {"importclosure": _import}
