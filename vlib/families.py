"""Replay dispatch per family."""
from . import core


def _import(ctx, pid, rep):
    from . import fam_import
    s = dict(rep["scenario"])
    s["id"] = 1
    events, _ = core.vh(ctx, "importclosure", [s])
    prints, _, _ = core.validate(ctx, "ImportClosureTrace", "ImportClosureTrace.cfg", events)
    fam_import._judge(ctx, pid, [s], events, prints)
    return [v["sig"] for v in ctx.violations]


def _chroot(ctx, pid, rep):
    s = dict(rep["scenario"])
    s["imports"] = True
    r = core.generate(ctx, "ChrootGen", "GenChroot5.cfg")
    match = [x for x in r if x["root"] == s["root"] and x["segs"] == s["segs"]]
    events, _ = core.vh(ctx, "chroot", match)
    prints, _, _ = core.validate(ctx, "ChrootTrace", "ChrootTrace.cfg", events)
    return ["C18/" + "+".join(sorted(p["what"])) for k, p in prints if k == "VERDICT"]


REPLAY = {"importclosure": _import, "chroot": _chroot}
