"""C13: sequence diagrams (spec/SeqDiagram*.tla)."""
import json

from . import core

D0 = {"tags": [], "attrs": [], "pos": {"file": "", "line": 0, "col": 0}}


def complete(decls):
    """Adds a trivial endpoint for every (application, endpoint) that is called but not declared."""
    apps = {}
    cur = None
    depth = 0
    for d in decls:
        if d["k"] == "app":
            cur = d["name"]
            apps.setdefault(cur, set())
        elif d["k"] == "ep" and depth == 1:
            apps[cur].add(d["name"])
        if d["k"] == "end":
            depth -= 1
        elif d["k"] in ("app", "ep", "block", "oneof", "choice"):
            depth += 1
    need = {}
    cur = None
    for d in decls:
        if d["k"] == "app":
            cur = d["name"]
        if d["k"] == "stmt" and d.get("kind") == "call":
            a = cur if d["app"] == "." else d["app"]
            if d["ep"] not in apps.get(a, set()):
                need.setdefault(a, set()).add(d["ep"])
    out = list(decls)
    for a in sorted(need):
        out.append(dict(D0, k="app", name=a, long=""))
        for e in sorted(need[a]):
            out.append(dict(D0, k="ep", name=e, long="", params=[]))
            out.append(dict(D0, k="stmt", kind="action", text="work in " + a))
            if (len(a) + len(e)) % 2 == 0:
                out.append(dict(D0, k="stmt", kind="ret", text="ok <: string"))
            out.append({"k": "end"})
        out.append({"k": "end"})
    return out


def with_teams(decls, k):
    """Gives most applications a `team` attribute (two values), the grouping attribute of the option runs."""
    out = []
    n = 0
    for d in decls:
        if d["k"] == "app":
            d = dict(d)
            n += 1
            if (n + k) % 3 != 0:
                d["attrs"] = list(d.get("attrs") or []) + [["team", "t%d" % ((n + k) % 2 + 1)]]
        out.append(d)
    return out


def check_c13(ctx):
    quick = ctx.quick()
    core.build_vh(ctx)
    mc = core.model_check(ctx, "SeqDiagramMC", "MCSeqDiagramSmall.cfg" if quick else "MCSeqDiagram.cfg", timeout=2400)
    gen = core.generate(ctx, "FrontendGen", "GenCalls.cfg", num=220 if quick else 3000, depth=400,
                        seed=ctx.seed * 100 + 13, timeout=2400)
    scn = [{"id": i + 1, "decls": with_teams(complete(g["decls"]), i), "seed": ctx.seed, "starts": [], "text": False, "opts": i % 2 == 0, "mermaid": i % 3 == 0, "project": i % 4 == 1}
           for i, g in enumerate(gen)]
    # every block shape: an if with or without else, every loop kind, a labelled group, a `one of` with two or three
    # choices, a block in a block; every body the placeholder `...`, an action, a call or a return; a call before / after
    shapes_gen = core.generate(ctx, "SeqShapeGen", "GenSeqShape.cfg", timeout=600)
    for g in shapes_gen:
        scn.append({"id": len(scn) + 1, "decls": g["decls"], "seed": ctx.seed, "starts": ["A <- e1"], "text": False, "opts": False, "shape": g["shape"]})
    events, _ = core.vh_sharded(ctx, "seqdiag", scn, timeout=3000)
    # trace ids are per (program, start endpoint) and must be unique across shards
    remap, n = {}, 0
    for e in events:
        key = (e.get("scn") if e["e"] == "begin" else None)
        if e["e"] == "begin":
            n += 1
            remap[(id(events), e["t"], e["scn"])] = n
            cur = n
        e["t"] = cur
    unreadable = [e for e in events if e["e"] == "line"]
    if unreadable:
        raise core.Infra("the PlantUML reader does not understand: %r" % unreadable[0]["text"])
    prints, nev, _ = core.validate(ctx, "SeqDiagramTrace", "SeqDiagramTrace.cfg", events, chunk=30000)
    begins = {e["t"]: e for e in events if e["e"] == "begin"}
    by_scn = {s["id"]: s for s in scn}
    traces = core.split_traces(events)
    shapes = set()
    for t, b in begins.items():
        shapes.add(json.dumps([b["eps"], b["start"]], sort_keys=True))
    for kind, p in prints:
        t = p["t"]
        b = begins[t]
        if kind == "VERDICT":
            names = sorted(p["what"])
        elif kind == "REJECT":
            names = ["NoDiagram:" + str(p["what"])]
        elif kind == "EXTRA":
            # beyond the listed properties: the Mermaid sequence generator against the same reference walk
            mm = [e for e in traces[t] if e["e"] == "mermaid"][0]
            core.add_extra(ctx, "mermaid-sequence/" + "+".join(sorted(p["what"])),
                           "start %s: %s; arrows %s, lines that are no statement %s, %s; model %s" %
                           (b["start"], sorted(p["what"]), json.dumps(mm["arrows"])[:300], json.dumps(mm["unknown"])[:200], mm.get("msg", ""), json.dumps(b["eps"])[:400]))
            continue
        else:
            continue
        recursive_return = _recursion_with_return(b)
        sig = "C13/" + "+".join(names)
        what = "start %s (blackboxes %s, grouping %s%s): %s; model %s" % (b["start"], b.get("cut"), b.get("group") or "off",
                                                                        ", diagram %s of a project with blackboxes %s" % (b["project"], b.get("pcut")) if b.get("project") else "",
                                                                        names, json.dumps(b["eps"])[:600])
        if b.get("project"):
            sig += "/project-diagram-%s" % ("with-own-blackbox" if b.get("cut") else "after-the-one-with-own-blackbox" if b["project"] > "SEQ-B" else "first")
        core.add_violation(ctx, sig, what, {"family": "seqdiag", "scenario": dict(by_scn[b["scn"]], starts=[b["start"]]),
                                            "trace": [e for e in traces[t] if e["e"] != "begin"][:60]})
    cov = {"states": mc.distinct, "transitions": mc.generated, "traces_validated_against_impl": len(begins),
           "trace_events": nev, "programs": len(scn), "block_shapes_enumerated": len(shapes_gen), "distinct_models_x_start": len(shapes),
           "errors_returned": sum(1 for e in events if e["e"] == "error"),
           "diagrams_with_blackboxes": sum(1 for b in begins.values() if b.get("cut")),
           "diagrams_with_grouping": sum(1 for b in begins.values() if b.get("group")),
           "mermaid_sequence_diagrams_compared": sum(1 for e in events if e["e"] == "mermaid"),
           "samples": [{"start": b["start"], "eps": b["eps"]} for b in list(begins.values())[:2]]}
    return core.finish(ctx, "model_checking", cov, [
        "models are TLC-generated call graphs over three applications x two endpoints with calls (incl. self calls) anywhere in nested "
        "if/else/loop/group/one-of blocks and returns anywhere; every endpoint is used as the start; calls to undefined endpoints belong to C20",
        "block shapes enumerated by SeqShapeGen.tla: one endpoint = [call] + block + [call], the block an if (with / without else), every loop kind, a labelled group, "
        "a one-of with two or three choices, or a block in a block; every body `...`, an action, a call or a return",
        "default labels (endpoint name on the arrow); every start of every second program is also drawn with up to two other endpoints as "
        "blackboxes and, for half of those, grouped by the attribute `team`; no ~human/~cron participants",
        "the PlantUML reader fails closed: an unrecognised line is an infrastructure error, not a verdict",
    ])


def _recursion_with_return(b):
    return False
