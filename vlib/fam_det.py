"""C19 (and the shared judge of C07): determinism of generators (spec/Determinism*.tla)."""
import json

from . import core, fam_frontend, fam_seq


def det_scenarios(ctx, quick):
    progs = fam_frontend.programs(ctx, 14 if quick else 150, seed_off=19)
    calls = core.generate(ctx, "FrontendGen", "GenCalls.cfg", num=8 if quick else 80, depth=400, seed=ctx.seed * 100 + 20, timeout=2400)
    types = core.generate(ctx, "FrontendGen", "GenTypes.cfg", num=8 if quick else 80, depth=400, seed=ctx.seed * 100 + 21, timeout=2400)
    scn = []
    for p in progs:
        scn.append({"id": len(scn) + 1, "decls": p["decls"], "seed": ctx.seed})
    for g in calls:
        scn.append({"id": len(scn) + 1, "decls": fam_seq.complete(g["decls"]), "seed": ctx.seed})
    for g in types:
        scn.append({"id": len(scn) + 1, "decls": g["decls"], "seed": ctx.seed})
    # chained mixins (A -|> B, B -|> NS :: C, ...): the compiled model then depends on the order in
    # which applications are post-processed
    for g in types:
        apps = []
        for d in g["decls"]:
            if d["k"] == "app" and d["name"] not in apps:
                apps.append(d["name"])
        if len(apps) < 2:
            continue
        nxt = {a: apps[(i + 1) % len(apps)] for i, a in enumerate(apps)}
        decls, seen = [], set()
        for d in g["decls"]:
            decls.append(d)
            if d["k"] == "app" and d["name"] not in seen and d["name"] != apps[-1]:
                seen.add(d["name"])
                decls.append({"k": "mixin", "name": nxt[d["name"]]})
        scn.append({"id": len(scn) + 1, "decls": decls, "seed": ctx.seed, "mixins": True})
    # dedicated chains of three and four applications, in several name orders
    D0 = {"tags": [], "attrs": [], "pos": {"file": "", "line": 0, "col": 0}}
    intsh = {"p": "int", "ref": [], "size": [], "opt": False, "wrap": ""}
    for names in (["Ma", "Mb", "Mc"], ["Mc", "Ma", "Mb"], ["Mb", "Mc", "Ma", "Md"], ["Md", "Mc", "Mb", "Ma"]):
        decls = []
        for i, a in enumerate(names):
            decls.append(dict(D0, k="app", name=a, long="", tags=["abstract"]))
            if i + 1 < len(names):
                decls.append({"k": "mixin", "name": names[i + 1]})
            decls.append(dict(D0, k="type", name="T" + a, kind="tuple"))
            decls.append(dict(D0, k="field", name="f", sh=intsh, pk=False))
            decls.append({"k": "end"})
            decls.append({"k": "end"})
        scn.append({"id": len(scn) + 1, "decls": decls, "seed": ctx.seed, "mixins": True, "reps": 12})
    return scn


def check_c19(ctx):
    quick = ctx.quick()
    core.build_vh(ctx)
    mc = core.model_check(ctx, "Determinism", "MCDeterminism.cfg")
    scn = det_scenarios(ctx, quick)
    reps = 5 if quick else 12
    for s in scn:
        s["reps"] = max(reps, s.get("reps", 0))
    # P fresh processes over the same inputs: shard twice with different shardings
    ev1, _ = core.vh_sharded(ctx, "determinism", scn, timeout=3000, resilient=True)
    ev2, _ = core.vh_sharded(ctx, "determinism", scn, timeout=3000, resilient=True, shards=3 if quick else 7)
    events = sorted(ev1 + ev2, key=lambda e: e["t"])
    prints, nev, _ = core.validate(ctx, "DeterminismTrace", "DeterminismTrace.cfg", events, chunk=60000)
    by_id = {s["id"]: s for s in scn}
    gens = {e["g"] for e in events if e["e"] == "gen"}
    keys = {(e["g"], e["k"], e["input"]) for e in events if e["e"] == "gen"}
    fails = {}
    for e in events:
        if e["e"] == "genfail":
            fails[e["g"]] = fails.get(e["g"], 0) + 1
    seen = set()
    for kind, p in prints:
        if kind != "VERDICT":
            continue
        w = p["what"]
        sig = "C19/" + w["g"]
        if (sig, w["input"]) in seen:
            continue
        seen.add((sig, w["input"]))
        core.add_violation(ctx, sig, "generator %s gives different output for the same model (input %d, run %d, pid %d)" %
                           (w["g"], w["input"], w["run"], w["pid"]), {"family": "determinism", "scenario": by_id[w["input"]], "generator": w["g"]})
    cov = {"evaluations": sum(1 for e in events if e["e"] == "gen"), "distinct_nontrivial": len(keys),
           "rule": "one evaluation = one run of one generator on one compiled model; distinct = different (generator, option, model) key; "
                   "every key is observed %d times in each of 2 processes; models are TLC-generated programs with several entries per map "
                   "(applications, types, fields, endpoints, parameters, enum items)" % reps,
           "generators": sorted(gens), "generators_failing_on_some_model": fails,
           "states": mc.distinct, "transitions": mc.generated, "traces_validated_against_impl": len(scn),
           "samples": [e for e in events if e["e"] == "gen"][:3]}
    return core.finish(ctx, "exploration", cov, [
        "repetition can refute determinism, not prove it; Go re-randomises map iteration on every range, so an unsorted walk over n >= 2 "
        "entries shows with probability >= 1/2 per repetition",
        "generators are called in-process through their library entry points; the CLI wrappers are exercised by C20",
        "a generator that fails (error or panic) on a model contributes no observation here",
    ])
