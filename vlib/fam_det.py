"""C19 (and the shared judge of C07): determinism of generators (spec/Determinism*.tla)."""
import json

from . import core, fam_frontend, fam_seq


def det_scenarios(ctx, quick):
    progs = fam_frontend.programs(ctx, 14 if quick else 150, seed_off=19)
    calls = core.generate(ctx, "FrontendGen", "GenCalls.cfg", num=8 if quick else 80, depth=400, seed=ctx.seed * 100 + 20, timeout=2400)
    types = core.generate(ctx, "FrontendGen", "GenTypes.cfg", num=8 if quick else 80, depth=400, seed=ctx.seed * 100 + 21, timeout=2400)
    scn = []
    for p in progs:
        scn.append({"id": len(scn) + 1, "decls": p["decls"], "seed": ctx.seed})
    for g in calls:
        # a project application draws up to four endpoints as sequence diagrams of its own (`sysl sd -o %(epname).puml`),
        # with one called endpoint as a blackbox of the project and of one of its diagrams
        scn.append({"id": len(scn) + 1, "decls": fam_seq.complete(g["decls"]), "seed": ctx.seed, "project": True, "reps": 12})
    for g in types:
        scn.append({"id": len(scn) + 1, "decls": g["decls"], "seed": ctx.seed})
    # chained mixins (A -|> B, B -|> NS :: C, ...): the compiled model then depends on the order in
    # which applications are post-processed
    for g in types:
        apps = []
        for d in g["decls"]:
            if d["k"] == "app" and d["name"] not in apps:
                apps.append(d["name"])
        if len(apps) < 2:
            continue
        nxt = {a: apps[(i + 1) % len(apps)] for i, a in enumerate(apps)}
        decls, seen = [], set()
        for d in g["decls"]:
            decls.append(d)
            if d["k"] == "app" and d["name"] not in seen and d["name"] != apps[-1]:
                seen.add(d["name"])
                decls.append({"k": "mixin", "name": nxt[d["name"]]})
        scn.append({"id": len(scn) + 1, "decls": decls, "seed": ctx.seed, "mixins": True})
    # dedicated chains of three and four applications, in several name orders
    D0 = {"tags": [], "attrs": [], "pos": {"file": "", "line": 0, "col": 0}}
    intsh = {"p": "int", "ref": [], "size": [], "opt": False, "wrap": ""}
    for names in (["Ma", "Mb", "Mc"], ["Mc", "Ma", "Mb"], ["Mb", "Mc", "Ma", "Md"], ["Md", "Mc", "Mb", "Ma"]):
        decls = []
        for i, a in enumerate(names):
            decls.append(dict(D0, k="app", name=a, long="", tags=["abstract"]))
            if i + 1 < len(names):
                decls.append({"k": "mixin", "name": names[i + 1]})
            decls.append(dict(D0, k="type", name="T" + a, kind="tuple"))
            decls.append(dict(D0, k="field", name="f", sh=intsh, pk=False))
            decls.append({"k": "end"})
            decls.append({"k": "end"})
        scn.append({"id": len(scn) + 1, "decls": decls, "seed": ctx.seed, "mixins": True, "reps": 12})
    # names that differ in case only (applications, types, fields, endpoints): an order that ignores case has ties
    for names in (["Ledger", "ledger"], ["ledger", "Ledger", "LEDGER"]):
        decls = []
        for a in names:
            decls.append(dict(D0, k="app", name=a, long=""))
            for t in ("Entry", "entry"):
                decls.append(dict(D0, k="type", name=t, kind="tuple"))
                for f in ("ID", "id", "Id"):
                    decls.append(dict(D0, k="field", name=f, sh=intsh, pk=False))
                decls.append({"k": "end"})
            for e in ("Post", "post"):
                decls.append(dict(D0, k="ep", name=e, long="", params=[]))
                decls.append(dict(D0, k="stmt", kind="action", text="do it"))
                decls.append({"k": "end"})
            decls.append({"k": "end"})
        scn.append({"id": len(scn) + 1, "decls": decls, "seed": ctx.seed, "reps": 12})
    # relational models (spec/DbGen.tla): chains of foreign keys to foreign keys decide the order in which the database
    # script generators place the tables; the delta script between the last two versions is a generator too
    hist = core.generate(ctx, "DbGen", "GenDb3.cfg", num=20 if quick else 300, depth=14, seed=ctx.seed * 100 + 22, timeout=2400)
    deep = core.generate(ctx, "DbGen", "GenDbDeep.cfg", num=20 if quick else 200, depth=12, seed=ctx.seed * 100 + 23, timeout=2400)
    for h in hist + deep:
        scn.append({"id": len(scn) + 1, "decls": [], "versions": h["versions"], "seed": ctx.seed, "reps": 12})
    return scn


def check_c19(ctx):
    quick = ctx.quick()
    core.build_vh(ctx)
    mc = core.model_check(ctx, "Determinism", "MCDeterminism.cfg")
    scn = det_scenarios(ctx, quick)
    reps = 5 if quick else 12
    for s in scn:
        s["reps"] = max(reps, s.get("reps", 0))
    # P fresh processes over the same inputs: shard twice with different shardings
    ev1, _ = core.vh_sharded(ctx, "determinism", scn, timeout=3000, resilient=True)
    ev2, _ = core.vh_sharded(ctx, "determinism", scn, timeout=3000, resilient=True, shards=3 if quick else 7)
    events = sorted(ev1 + ev2, key=lambda e: e["t"])
    prints, nev, _ = core.validate(ctx, "DeterminismTrace", "DeterminismTrace.cfg", events, chunk=60000)
    by_id = {s["id"]: s for s in scn}
    gens = {e["g"] for e in events if e["e"] == "gen"}
    keys = {(e["g"], e["k"], e["input"]) for e in events if e["e"] == "gen"}
    fails = {}
    for e in events:
        if e["e"] == "genfail":
            fails[e["g"]] = fails.get(e["g"], 0) + 1
    seen = set()
    for kind, p in prints:
        if kind != "VERDICT":
            continue
        w = p["what"]
        sig = "C19/" + w["g"]
        if (sig, w["input"]) in seen:
            continue
        seen.add((sig, w["input"]))
        core.add_violation(ctx, sig, "generator %s gives different output for the same model (input %d, run %d, pid %d)" %
                           (w["g"], w["input"], w["run"], w["pid"]), {"family": "determinism", "scenario": by_id[w["input"]], "generator": w["g"]})
    cov = {"evaluations": sum(1 for e in events if e["e"] == "gen"), "distinct_nontrivial": len(keys),
           "rule": "one evaluation = one run of one generator on one compiled model; distinct = different (generator, option, model) key; "
                   "every key is observed %d times in each of 2 processes; models are TLC-generated programs with several entries per map "
                   "(applications, types, fields, endpoints, parameters, enum items)" % reps,
           "generators": sorted(gens), "generators_failing_on_some_model": fails,
           "states": mc.distinct, "transitions": mc.generated, "traces_validated_against_impl": len(scn),
           "samples": [e for e in events if e["e"] == "gen"][:3]}
    return core.finish(ctx, "exploration", cov, [
        "repetition can refute determinism, not prove it; Go re-randomises map iteration on every range, so an unsorted walk over n >= 2 "
        "entries shows with probability >= 1/2 per repetition",
        "generators are called in-process through their library entry points; the CLI wrappers are exercised by C20",
        "a generator that fails (error or panic) on a model contributes no observation here",
    ])


def check_c07(ctx):
    import os
    import random
    import re
    quick = ctx.quick()
    core.build_vh(ctx, race=True)
    mc = core.model_check(ctx, "CompileConc", "MCCompileConc.cfg")
    # non-vacuity of the design check: the variant that never deletes must violate the invariants
    r = core.tlc(ctx, "CompileConc", "MCCompileConcMutant.cfg", workers=4, expect_fail=True)
    if not r.violated:
        raise core.Infra("CompileConc.tla does not distinguish the delete-at-end variant from the never-delete one")
    scn_src = det_scenarios(ctx, quick)
    rng = random.Random(ctx.seed)
    sources = [{"decls": s["decls"], "text": ""} for s in scn_src]
    files = fam_frontend.corpus_files()
    for f in rng.sample(files, 20 if quick else 150):
        try:
            text = open(os.path.join(core.repo_dir(), f), errors="replace").read()
        except OSError:
            continue
        if "import " in text:
            continue
        sources.append({"decls": [], "text": text})
    # import closures with diamonds and repeated imports (the collector's shared map is exercised concurrently)
    for k in range(6 if quick else 30):
        n = 3 + k % 3
        files = {}
        for i in range(n):
            imps = "".join("import f%d\n" % j for j in range(i + 1, n) if (i + j + k) % 2 == 0 or j == n - 1)
            files["f%d.sysl" % i] = imps + "\nApp%d:\n    Ep:\n        step %d\nShared:\n    Log:\n        visited %d\n" % (i, i, i)
        main = "import f0\nimport f1\nimport f%d\n\nRoot:\n    Ep:\n        ...\n" % (n - 1)
        sources.append({"decls": [], "text": main, "files": files})
    # sources that end in a syntax error after the lexer has changed its state (an import seen, a bracket open, an
    # indentation level entered): a compile that fails must leave as little behind as one that succeeds
    broken = ["import dep\nShop [~x\n    Ep:\n        ...\n",
              "Shop:\n    Ep (a <: int, b <: [\n        ...\n",
              "Shop:\n    !type T:\n        f <: sequence of\n",
              "Shop:\n    Ep:\n        if x:\n            B <- \n",
              "import a\nimport b as\nShop:\n    Ep:\n        ...\n",
              "Shop:\n    /a/{id <: int:\n        GET:\n            ...\n",
              # the first syntax error is the end of the file (a header without a body)
              "Broken:\n", "import dep\n\nShop:\n", "Shop:\n    Ep:\n"]
    broken = broken[-3:] + broken[:-3]
    for i, b in enumerate(broken if not quick else broken[:6]):
        sources.append({"decls": [], "text": b})
    for f in rng.sample(fam_frontend.corpus_files(), 6 if quick else 40):
        try:
            text = open(os.path.join(core.repo_dir(), f), errors="replace").read()
        except OSError:
            continue
        if "import " in text or len(text) < 200:
            continue
        sources.append({"decls": [], "text": text[:len(text) * 2 // 3] + " [~open, x=[\"a\""})
    groups = 4 if quick else 8
    scn = []
    for g in range(groups):
        part = sources[g::groups]
        scn.append({"id": g + 1, "sources": part, "waves": 6 if quick else 40, "widths": [2, 8, 64, 16],
                    "procs": [1, 2, 4, 16], "seed": ctx.seed * 10 + g,
                    # every second driver process starts cold: 64 concurrent compilations before anything else was compiled
                    "cold": g % 2 == 1})
    logs = os.path.join(ctx.work, "race")
    os.makedirs(logs, exist_ok=True)
    events, stderr = core.vh_sharded(ctx, "conc", scn, timeout=3000, race=True, shards=groups, resilient=True,
                                     env={"GORACE": "halt_on_error=0 exitcode=0 log_path=%s/race" % logs})
    races = []
    for fn in os.listdir(logs):
        txt = open(os.path.join(logs, fn), errors="replace").read()
        for m in re.finditer(r"WARNING: DATA RACE.*?(?==================|\Z)", txt, re.S):
            races.append(m.group(0))
    prints, nev, _ = core.validate(ctx, "CompileConcTrace", "CompileConcTrace.cfg", events, chunk=60000)
    by_id = {s["id"]: s for s in scn}
    for kind, p in prints:
        if kind == "VERDICT":
            w = p["what"]
            sig = "C07/" + w["what"]
            what = "%s (group %d, source %s, wave %s)" % (w["what"], p["t"], w["input"], w["wave"])
        elif kind == "REJECT":
            ev0 = [e for e in events if e["t"] == p["t"] and e["e"] == p["what"]][:1]
            sig = "C07/Crash:" + str(p["what"])
            if p["what"] == "hang" and ev0:
                sig = "C07/Hang/" + str(ev0[0].get("site"))
            if p["what"] == "fatal" and ev0:
                sig = "C07/Crash:fatal/" + str(ev0[0].get("site"))
            what = "group %d: %s" % (p["t"], ev0)
        else:
            continue
        core.add_violation(ctx, sig, what, {"family": "conc", "scenario": {k: v for k, v in by_id[p["t"]].items() if k != "sources"}})
    for r_ in races[:3]:
        frames = re.findall(r"github.com/anz-bank/sysl/[^\s(]+", r_)
        site = frames[0].replace("github.com/anz-bank/sysl/", "") if frames else "unknown"
        core.add_violation(ctx, "C07/DataRace/" + site, r_[:1500], {"family": "conc", "race": r_[:3000]})
    nobs = sum(1 for e in events if e["e"] == "gen")
    cov = {"evaluations": nobs // 2, "distinct_nontrivial": len(sources),
           "rule": "one evaluation = one compile (sequential baseline or inside a wave of 2/8/64/16 goroutines under GOMAXPROCS 1/2/4/16); "
                   "distinct = different source (TLC-generated programs incl. chained mixins, and corpus files without imports); "
                   "every result is compared with the first result of the same source (a sequential one, or for the driver processes that start cold with 64 concurrent compilations the first concurrent one); built with -race",
           "waves": sum(s["waves"] for s in scn), "race_reports": len(races),
           "quiescence_checks": sum(1 for e in events if e["e"] == "quiescent"),
           "states": mc.distinct, "transitions": mc.generated, "traces_validated_against_impl": len(scn),
           "samples": [e for e in events if e["e"] in ("gen", "quiescent")][:3]}
    return core.finish(ctx, "exploration", cov, [
        "the schedules of the real goroutines are sampled, not enumerated; the protocol of the global lexer-state map is model-checked separately (CompileConc.tla, 3 parses x 2 addresses)",
        "data-race freedom is what the Go race detector observes on the executed interleavings",
        "lexer state at quiescence is read through the verif hook VerifLexerStateCount",
    ])
