"""Shared machinery: building the harness, running TLC, trace plumbing, verdicts, evidence."""
import fnmatch
import hashlib
import json
import os
import re
import shutil
import subprocess
import sys
import time

ROOT = os.path.dirname(os.path.dirname(os.path.abspath(__file__)))
SPEC = os.path.join(ROOT, "spec")
HARNESS = os.path.join(ROOT, "harness")
WORK = os.environ.get("VERIF_WORK") or os.path.join(ROOT, ".work")   # VERIF_WORK: a scratch directory for ad-hoc runs beside a registered one
NCPU = os.cpu_count() or 4

GOENV = {"GOFLAGS": "-mod=mod", "GOPROXY": "off", "GOSUMDB": "off", "GOTOOLCHAIN": "local"}


class Infra(Exception):
    """Failure of the machinery itself (exit 2, never a violation)."""


def log(*a):
    print(*a, flush=True)


def repo_dir():
    return os.environ.get("VERIF_REPO", "/repo")


class Ctx:
    def __init__(self, pid, tier, seed):
        self.pid = pid
        self.tier = tier
        self.seed = seed
        self.t0 = time.time()
        self.work = os.path.join(WORK, "%s-%s" % (pid, tier))
        shutil.rmtree(self.work, ignore_errors=True)
        os.makedirs(self.work)
        self.violations = []   # dicts: sig, what, replay (dict to store)
        self.tlc_runs = []     # summaries for evidence
        self.notes = []
        self._vh = None
        self._n = 0

    def quick(self):
        return self.tier == "quick"

    def sub(self, name):
        d = os.path.join(self.work, name)
        os.makedirs(d, exist_ok=True)
        return d

    def fresh(self, prefix):
        self._n += 1
        return self.sub("%s%02d" % (prefix, self._n))


def run(cmd, cwd=None, timeout=None, env=None, stdin=None, check=False):
    e = dict(os.environ)
    e.update(GOENV)
    if env:
        e.update(env)
    try:
        p = subprocess.run(cmd, cwd=cwd, env=e, input=stdin, stdout=subprocess.PIPE,
                           stderr=subprocess.PIPE, timeout=timeout, text=True, errors="replace")
    except subprocess.TimeoutExpired as ex:
        raise Infra("timeout after %ss: %s" % (timeout, " ".join(cmd[:6]))) from ex
    if check and p.returncode != 0:
        raise Infra("command failed (%d): %s\n%s\n%s" % (p.returncode, " ".join(cmd[:8]), p.stdout[-3000:], p.stderr[-3000:]))
    return p


# ----------------------------------------------------------------------------- Go harness

def prepare_harness_module(dst=None):
    """Copies the harness sources to dst (default: in place) and points the replace directive at the repository."""
    repo = repo_dir()
    src = HARNESS
    if dst is not None:
        shutil.rmtree(dst, ignore_errors=True)
        shutil.copytree(src, dst, ignore=shutil.ignore_patterns("go.mod", "go.sum"))
    else:
        dst = src
    tmpl = open(os.path.join(src, "go.mod.tmpl")).read().replace("@REPO@", repo)
    open(os.path.join(dst, "go.mod"), "w").write(tmpl)
    shutil.copyfile(os.path.join(repo, "go.sum"), os.path.join(dst, "go.sum"))
    return dst


def build_vh(ctx, race=False):
    """Build the harness driver against the current working tree of the repository (hooks on)."""
    key = "vh-race" if race else "vh"
    out = os.path.join(ctx.work, "bin", key)
    if os.path.exists(out):
        return out
    hdir = prepare_harness_module(os.path.join(ctx.work, "harness-src"))
    os.makedirs(os.path.dirname(out), exist_ok=True)
    cmd = ["go", "build", "-tags", "verif"]
    if race:
        cmd.append("-race")
    cmd += ["-o", out, "./cmd/vh"]
    t = time.time()
    p = run(cmd, cwd=hdir, timeout=1500)
    if p.returncode != 0:
        raise Infra("go build of the harness against %s failed:\n%s" % (repo_dir(), p.stderr[-4000:]))
    log("[build] %s in %.1fs (repo=%s)" % (key, time.time() - t, repo_dir()))
    return out


def build_sysl(ctx):
    out = os.path.join(ctx.work, "bin", "sysl")
    if os.path.exists(out):
        return out
    os.makedirs(os.path.dirname(out), exist_ok=True)
    p = run(["go", "build", "-tags", "verif", "-o", out, "./cmd/sysl"], cwd=repo_dir(), timeout=1500)
    if p.returncode != 0:
        raise Infra("go build of sysl failed:\n%s" % p.stderr[-4000:])
    return out


def vh(ctx, family, scenarios, extra=None, timeout=1800, race=False, env=None, name=None, resilient=False):
    """Run the driver on a list of scenario dicts; returns the list of events.

    resilient: the driver emits {"e":"start","t":id} (flushed) before each scenario; if the process dies
    (fatal runtime error, panic in a goroutine the driver cannot guard) the scenario that was running
    gets a {"e":"fatal"} event and the driver is restarted on the remaining scenarios."""
    exe = build_vh(ctx, race=race)
    evs, errs = [], []
    todo = list(scenarios)
    crashes = 0
    while True:
        d = ctx.fresh(name or family)
        inp = os.path.join(d, "scenarios.ndjson")
        outp = os.path.join(d, "trace.ndjson")
        with open(inp, "w") as f:
            for s in todo:
                f.write(json.dumps(s) + "\n")
        p = run([exe, family, "-in", inp, "-out", outp] + (extra or []), cwd=d, timeout=timeout, env=env)
        part = []
        if os.path.exists(outp):
            with open(outp) as f:
                for line in f:
                    line = line.strip()
                    if not line:
                        continue
                    try:
                        part.append(json.loads(line))
                    except ValueError:
                        break   # torn last line of a crashed run
        errs.append(p.stderr)
        if p.returncode == 0:
            return evs + part, "".join(errs)
        if not resilient:
            raise Infra("vh %s exited %d:\n%s\n[...]\n%s" % (family, p.returncode, p.stderr[:1500], p.stderr[-2500:]))
        crashes += 1
        starts = [e for e in part if e.get("e") in ("start", "begin")]
        if not starts or crashes > 40:
            raise Infra("vh %s keeps dying (%d crashes):\n%s" % (family, crashes, p.stderr[-3000:]))
        t = starts[-1]["t"]
        # keep everything up to and including the last start, then record the death
        cut = max(i for i, e in enumerate(part) if e.get("e") in ("start", "begin") and e["t"] == t)
        part = part[:cut + 1]
        head = p.stderr.strip().splitlines()
        msg = next((l for l in head if l.startswith(("panic:", "fatal error:"))), head[0] if head else "")
        site = next((l.strip().split("(")[0] for l in head if l.strip().startswith("github.com/anz-bank/sysl/")), "unknown")
        part.append({"t": t, "e": "fatal", "msg": msg[:300], "site": site.replace("github.com/anz-bank/sysl/", "")})
        evs += part
        # families whose trace ids are derived from the scenario id say which scenario a trace belongs to ("scn")
        sid = starts[-1].get("scn", t)
        idx = next(i for i, s in enumerate(todo) if s.get("id") == sid)
        todo = todo[idx + 1:]
        if not todo:
            return evs, "".join(errs)


def vh_sharded(ctx, family, scenarios, shards=None, **kw):
    """Run several driver processes in parallel over slices of the scenarios."""
    from concurrent.futures import ThreadPoolExecutor
    shards = shards or min(NCPU, max(1, len(scenarios) // 8))
    if shards <= 1:
        return vh(ctx, family, scenarios, **kw)
    parts = [scenarios[i::shards] for i in range(shards)]
    dirs = [ctx.fresh(family) for _ in parts]
    build_vh(ctx, race=kw.get("race", False))

    def one(i):
        c2 = _DirCtx(ctx, dirs[i])
        return vh(c2, family, parts[i], **kw)
    with ThreadPoolExecutor(shards) as ex:
        res = list(ex.map(one, range(len(parts))))
    evs, errs = [], []
    for e, s in res:
        evs += e
        errs.append(s)
    return evs, "".join(errs)


class _DirCtx:
    def __init__(self, ctx, d):
        self.work = ctx.work
        self._d = d

    def fresh(self, _):
        return self._d


# ----------------------------------------------------------------------------- TLC

class TlcResult:
    def __init__(self, out, rc, wall):
        self.out = out
        self.rc = rc
        self.wall = wall
        m = re.findall(r"(\d[\d,]*) states generated, (\d[\d,]*) distinct states found", out)
        self.generated = int(m[-1][0].replace(",", "")) if m else 0
        self.distinct = int(m[-1][1].replace(",", "")) if m else 0
        self.violated = re.findall(r"Invariant (\S+) is violated", out) + \
            re.findall(r"Temporal properties were violated", out) + \
            re.findall(r"Action property (\S+) is violated", out)
        self.finished = "Model checking completed. No error has been found." in out or \
            bool(re.search(r"Finished in ", out)) and not self.violated and "Error:" not in out
        self.error = None
        if "Error:" in out and not self.violated:
            i = out.index("Error:")
            self.error = out[i:i + 1500]
        self.postcondition_failed = "Postcondition" in out and "violated" in out.lower() or "POSTCONDITION" in out and "false" in out.lower()

    def prints(self):
        """PrintT(<<"KIND", "json">>) lines, de-duplicated, in order."""
        seen = set()
        res = []
        for line in self.out.splitlines():
            if not line.startswith('<<"'):
                continue
            m = re.match(r'^<<"([A-Za-z]+)", (".*")>>$', line)
            if not m:
                continue
            if line in seen:
                continue
            seen.add(line)
            try:
                payload = json.loads(json.loads(m.group(2)))
            except ValueError:
                # TLA+ strings are not escaped exactly like JSON; fall back to manual unescape
                s = m.group(2)[1:-1].replace('\\"', '"').replace("\\\\", "\\")
                payload = json.loads(s)
            res.append((m.group(1), payload))
        return res


def tlc(ctx, module, cfg, name=None, workers=None, simulate=None, files=None, timeout=900,
        seed=None, extra=None, coverage=False, dfs=False, heap=None, expect_fail=False):
    """Run TLC on spec/<module>.tla with spec/<cfg> in a scratch copy; returns TlcResult."""
    d = ctx.fresh(name or cfg.replace(".cfg", ""))
    for fn in os.listdir(SPEC):
        if fn.endswith(".tla"):
            shutil.copy(os.path.join(SPEC, fn), d)
    shutil.copy(os.path.join(SPEC, cfg), d)
    for src, dst in (files or {}).items():
        shutil.copy(src, os.path.join(d, dst))
    java = ["java", "-XX:+UseParallelGC", "-Xss64m"]
    if heap:
        java.append("-Xmx" + heap)
    if dfs:
        java.append("-Dtlc2.tool.queue.IStateQueue=StateDeque")
    java += ["-cp", "/opt/veriftools/tla/tla2tools.jar:/opt/veriftools/tla/CommunityModules-deps.jar", "tlc2.TLC"]
    cmd = java + ["-workers", str(workers or 1), "-metadir", os.path.join(d, "md"), "-config", cfg]
    if simulate:
        num, depth = simulate
        cmd += ["-simulate", "num=%d" % num, "-depth", str(depth)]
    if seed is not None:
        cmd += ["-seed", str(seed)]
    if coverage:
        cmd += ["-coverage", "1"]
    cmd += (extra or []) + [module + ".tla"]
    t = time.time()
    outp = os.path.join(d, "tlc.out")
    with open(outp, "w") as fo:
        try:
            p = subprocess.run(["timeout", str(timeout)] + cmd, cwd=d, stdout=fo, stderr=subprocess.STDOUT)
        except Exception as ex:  # pragma: no cover
            raise Infra("cannot run TLC: %s" % ex)
    out = open(outp, errors="replace").read()
    r = TlcResult(out, p.returncode, time.time() - t)
    r.dir = d
    shutil.rmtree(os.path.join(d, "md"), ignore_errors=True)
    if p.returncode == 124:
        raise Infra("TLC timed out after %ss on %s/%s" % (timeout, module, cfg))
    if r.error and not expect_fail:
        raise Infra("TLC error on %s/%s:\n%s" % (module, cfg, r.error))
    return r


def model_check(ctx, module, cfg, workers=None, timeout=1200, **kw):
    """Design-level check: the spec itself must satisfy its properties; returns the result."""
    r = tlc(ctx, module, cfg, workers=workers or min(NCPU, 12), timeout=timeout, **kw)
    ok = not r.violated and "No error has been found" in r.out
    ctx.tlc_runs.append({"config": cfg, "module": module, "states": r.distinct, "transitions": r.generated,
                         "wall_s": round(r.wall, 1), "ok": ok})
    log("[tlc-mc] %s/%s: %d distinct states, %d generated, %.1fs, %s" %
        (module, cfg, r.distinct, r.generated, r.wall, "ok" if ok else "VIOLATED " + ",".join(r.violated)))
    if not ok:
        raise Infra("the specification %s/%s does not satisfy its own properties (spec bug, not a code verdict):\n%s"
                    % (module, cfg, r.out[-3000:]))
    return r


def generate(ctx, module, cfg, num=None, depth=100, seed=1, timeout=900, workers=1, kind="SCN"):
    """Scenario generation: BFS (num=None) or -simulate; returns the printed scenarios."""
    r = tlc(ctx, module, cfg, workers=workers, simulate=(num, depth) if num else None, seed=seed, timeout=timeout)
    if r.violated:
        raise Infra("generator %s/%s reported a violation:\n%s" % (module, cfg, r.out[-2000:]))
    scn = [p for k, p in r.prints() if k == kind]
    log("[tlc-gen] %s/%s: %d scenarios (%s), %.1fs" % (module, cfg, len(scn),
                                                     "simulate seed %d" % seed if num else "exhaustive BFS", r.wall))
    ctx.tlc_runs.append({"config": cfg, "module": module, "scenarios": len(scn), "mode": "simulate" if num else "bfs",
                         "states": r.distinct, "transitions": r.generated, "wall_s": round(r.wall, 1)})
    return scn


def write_trace(path, events, drop=("stall",)):
    """Adds b (line of own begin) and nx (line of the next begin) and writes the ndjson trace."""
    out = [e for e in events if e.get("e") not in drop]
    begins = []
    b = None
    for i, e in enumerate(out, 1):
        if e["e"] == "begin":
            b = i
            begins.append(i)
        if b is not None:
            e["b"] = b
    for k, i in enumerate(begins):
        out[i - 1]["nx"] = begins[k + 1] if k + 1 < len(begins) else len(out) + 1
    with open(path, "w") as f:
        for e in out:
            f.write(json.dumps(e) + "\n")
    return out


def validate(ctx, module, cfg, events, timeout=1800, coverage=False, chunk=40000):
    """Trace validation by TLC. Returns (prints, nevents, results)."""
    # split at trace boundaries so that a single TLC run stays small
    chunks, cur = [], []
    for e in events:
        if e["e"] == "begin" and len(cur) >= chunk:
            chunks.append(cur)
            cur = []
        cur.append(e)
    if cur:
        chunks.append(cur)
    allp, results = [], []
    for ch in chunks:
        d = ctx.fresh("trace-" + module)
        tp = os.path.join(d, "trace.in.ndjson")
        out = write_trace(tp, ch)
        r = tlc(ctx, module, cfg, name="val-" + module, files={tp: "trace.ndjson"}, workers=1, timeout=timeout,
                coverage=coverage, expect_fail=True)
        results.append(r)
        if r.error or r.violated:
            raise Infra("trace validation run failed (%s/%s):\n%s" % (module, cfg, (r.error or r.out[-3000:])))
        if "No error has been found" not in r.out:
            raise Infra("trace validation incomplete (%s/%s):\n%s" % (module, cfg, r.out[-3000:]))
        allp += r.prints()
        ctx.tlc_runs.append({"config": cfg, "module": module, "mode": "trace-validation", "events": len(out),
                             "states": r.distinct, "wall_s": round(r.wall, 1)})
        log("[tlc-trace] %s: %d events, %d states, %.1fs" % (module, len(out), r.distinct, r.wall))
    return allp, sum(len(c) for c in chunks), results


def split_traces(events):
    """events -> {trace id: [events]} keeping order."""
    res = {}
    for e in events:
        res.setdefault(e["t"], []).append(e)
    return res


# ----------------------------------------------------------------------------- verdicts

def load_known():
    p = os.path.join(ROOT, "known_findings.json")
    if not os.path.exists(p):
        return []
    return json.load(open(p)).get("findings", [])


def add_violation(ctx, sig, what, replay):
    ctx.violations.append({"sig": sig, "what": what, "replay": replay})


def add_extra(ctx, sig, what):
    """An observation about behaviour outside the listed properties (specification coverage grown beyond them).
    It is reported and recorded in the evidence but is no verdict on any property: exit codes are unaffected."""
    if not hasattr(ctx, "extras"):
        ctx.extras = {}
    e = ctx.extras.setdefault(sig, {"what": what, "n": 0})
    e["n"] += 1


def finish(ctx, level, coverage, assumptions):
    """Match violations against the known findings, write evidence and replay files, print the verdict lines."""
    known = [k for k in load_known() if k.get("property") == ctx.pid and k.get("status") == "known"]
    new, hit = [], {}
    for v in ctx.violations:
        entry = None
        for k in known:
            if any(fnmatch.fnmatchcase(v["sig"], pat) for pat in k.get("signatures", [])):
                entry = k
                break
        if entry is not None:
            hit.setdefault(entry["id"], [entry, 0])[1] += 1
        else:
            new.append(v)
    for kid, (entry, n) in sorted(hit.items()):
        log("KNOWN-FINDING: property=%s %s [%s; %d occurrence(s) this run]" % (ctx.pid, entry["what"], kid, n))
    # everything found in this run, for triage (scratch, not evidence)
    with open(os.path.join(ctx.work, "violations.json"), "w") as f:
        json.dump([{"sig": v["sig"], "what": v["what"], "known": v not in new} for v in ctx.violations], f, indent=1)
    rdir = os.path.join(ROOT, "replays", ctx.pid)
    seen = set()
    nprinted = 0
    for v in new:
        if v["sig"] in seen:
            continue
        seen.add(v["sig"])
        os.makedirs(rdir, exist_ok=True)
        body = json.dumps({"property": ctx.pid, "signature": v["sig"], "what": v["what"], "replay": v["replay"],
                           "seed": ctx.seed, "tier": ctx.tier}, indent=1, sort_keys=True)
        h = hashlib.sha1((ctx.pid + v["sig"]).encode()).hexdigest()[:12]
        path = os.path.join(rdir, h + ".json")
        open(path, "w").write(body)
        log("VIOLATION property=%s replay=%s" % (ctx.pid, path))
        log("  signature: %s" % v["sig"])
        log("  %s" % v["what"][:600])
        nprinted += 1
        if nprinted >= 40:
            log("  ... (%d further distinct signatures not listed)" % (len({x['sig'] for x in new}) - nprinted))
            break
    cov = dict(coverage)
    extras = getattr(ctx, "extras", {})
    for sig, e in sorted(extras.items()):
        log("BEYOND-PROPERTIES: %s [%d occurrence(s)]: %s" % (sig, e["n"], e["what"][:400]))
    if extras:
        cov["beyond_listed_properties"] = {sig: {"occurrences": e["n"], "example": e["what"][:600]} for sig, e in sorted(extras.items())}
    cov["tlc_runs"] = ctx.tlc_runs
    cov["known_findings_hit"] = {k: n for k, (e, n) in hit.items()}
    ev = {"property_id": ctx.pid, "tier": ctx.tier, "seed": ctx.seed, "level": level, "coverage": cov,
          "assumptions": assumptions, "wall_s": round(time.time() - ctx.t0, 1),
          "violations": len({v["sig"] for v in new})}
    if ctx.notes:
        ev["coverage"]["notes"] = ctx.notes
    # evidence describes runs against /repo; a run against another tree (VERIF_REPO: a scratch worktree with a seeded
    # change) keeps its file in the work directory and leaves the committed evidence alone
    evdir = os.path.join(ROOT, "evidence") if os.path.realpath(os.environ.get("VERIF_REPO", "/repo")) == "/repo" \
        else os.path.join(WORK, "evidence")
    os.makedirs(evdir, exist_ok=True)
    with open(os.path.join(evdir, ctx.pid + ".json"), "w") as f:
        json.dump(ev, f, indent=1, sort_keys=True)
        f.write("\n")
    log("[%s] %s tier, seed %d: %d new violation signature(s), %d known finding(s) hit, %.0fs" %
        (ctx.pid, ctx.tier, ctx.seed, len({v['sig'] for v in new}), len(hit), time.time() - ctx.t0))
    return 1 if new else 0
