"""Generates MANIFEST.json from the table below: python3 -m vlib.manifest"""
import json
import os

from . import core

HOOK_COMMITS = ["e03d988"]

BASELINE_OFF = ("cd /repo && GOFLAGS=-mod=mod go test -json -vet=off -count=1 -timeout 25m ./...")

# pid -> (level, technique, level text, level note, design ref)
CHECKS = {
    "C05": ("model_checking",
            "TLA+ spec ImportClosure.tla model-checked by TLC; TLC-generated schedules replayed into the real collector through the verif gate; every recorded trace validated by TLC (ImportClosureTrace.tla)",
            "The collector's goroutine protocol (claim under mutex, read outside, errgroup join, depth-first flatten) is an explicit TLA+ specification; TLC checks ReadOnce/ClosureExact/OrderFixed/termination for every digraph and interleaving of small constants, generates (graph, depth limit, release order) behaviours that are forced onto the real goroutines with the blocking verif hook and a gated reader.Reader, and judges every recorded trace (claim/dup/cut events taken under the mutex, reads, return value) against the specification and the properties. Free-running traces under GOMAXPROCS 1..16 are validated the same way.",
            "Trusts TLC, the gated reader and in-memory layout as stand-ins for golden-retriever/OS; goroutines with equal (file, depth) are treated as interchangeable; remote imports not exercised.",
            "DESIGN.md §6 C05"),
    "C06": ("fault_enumeration",
            "TLC-enumerated fault plans (which file fails, how, and at which point of the retrieval order) from ImportClosure.tla delivered by a gated fault-injecting reader; traces validated by TLC",
            "Every fault plan is a behaviour of the TLA+ specification with fault actions (ReadFail, import-syntax, body-syntax, foreign) enabled; TLC checks FailureFails/CulpritNamed/NoPartialModel/termination on the design and produces the plans; the harness delivers each fault at the scheduled step on the real code and TLC validates the recorded trace and the returned (module, error).",
            "Same trusted base as C05; fault kinds limited to read error, truncated/invalid body, broken import line, unrecognisable foreign file.",
            "DESIGN.md §6 C06"),
    "C18": ("model_checking",
            "TLA+ spec Chroot.tla (segment stack machine, Allowed, per-operation call sets) model-checked by TLC; TLC enumerates every (root, name) of the bounded space; every real ChrootFs operation and every import compile through loader is recorded under a recording afero.Fs and judged by TLC (ChrootTrace.tla)",
            "Exhaustive within the stated alphabet and length: TLC proves on the design that resolution is canonical/idempotent, '.'/'' neutral, '..' undoes a push, and that the call sets stay under the root; it then enumerates every name (<=4 segments quick, <=5 thorough, 6-symbol alphabet, relative and absolute, 4 roots) and the harness records every call that reaches the underlying file system for all 12 wrapper operations (Rename in both argument positions against 5 partner names) and for compiles whose import statement spells the name; TLC checks Confined / Works (spelling-independent resolution) / Refused for every event.",
            "POSIX paths only; the recording afero.Fs is assumed to see all file access (true for everything that goes through the afero.Fs handed to loader).",
            "DESIGN.md §6 C18"),
}

PENDING = {}


def main():
    props = [json.loads(l) for l in open(os.path.join(core.ROOT, "properties.jsonl"))]
    checks, na = [], []
    for p in props:
        pid = p["id"]
        if pid in CHECKS:
            level, tech, text, note, ref = CHECKS[pid]
            checks.append({
                "property_id": pid,
                "quick_cmd": "python3 verif.py check %s --tier quick" % pid,
                "thorough_cmd": "python3 verif.py check %s --tier thorough" % pid,
                "evidence_file": "/verif/evidence/%s.json" % pid,
                "replay_cmd_template": "python3 verif.py replay {path}",
                "engine": "tlc+vh",
                "level_claimed": {"category": level, "text": text, "design_ref": ref},
                "level_note": note,
                "technique": tech,
            })
        else:
            na.append({"property_id": pid, "reason": PENDING.get(pid, "check not built yet in this round; see DESIGN.md §11 build order")})
    m = {
        "version": 1,
        "setup_cmd": "python3 verif.py setup",
        "hooks": {"guard": "verif", "enable": "go build -tags verif (the harness module replaces github.com/anz-bank/sysl with /repo)",
                  "baseline_off_cmd": BASELINE_OFF, "source_commits": HOOK_COMMITS, "add_only": True},
        "engines": [{"name": "tlc+vh", "path": "/verif/verif.py",
                     "serves_properties": sorted(CHECKS),
                     "kind_free_text": "TLA+ specifications (spec/) checked and used as scenario generators and trace judges by TLC; Go harness (harness/cmd/vh) replays scenarios into the real code built from /repo with -tags verif and records ndjson traces"}],
        "checks": checks,
        "notes": "Exit codes: 0 held (KNOWN-FINDING lines possible), 1 VIOLATION, 2 infrastructure failure. VERIF_SEED seeds TLC -seed and harness choices.",
        "not_applicable": na,
    }
    with open(os.path.join(core.ROOT, "MANIFEST.json"), "w") as f:
        json.dump(m, f, indent=1)
        f.write("\n")


if __name__ == "__main__":
    main()
