"""Generates MANIFEST.json from the table below: python3 -m vlib.manifest"""
import json
import os

from . import core

HOOK_COMMITS = ["e03d988", "fd4decd"]
FIX_COMMITS = ["7c26a95", "7fa90f0", "f0c087a", "e99193e", "e23743b", "e274f6c", "d53ab7c", "6666d36", "240c26e", "d5ea340", "971abb4", "db7e5b1", "07318ba", "10a5b62", "a649d0f", "271d897", "ebd2600", "037e84b", "3eb1a99", "c5007d3", "548f9ea", "c23856b", "7de8a56", "d9e09f1", "713dee9", "17bda69", "c7d3caa", "bbcb34d"]

BASELINE_OFF = ("cd /repo && GOFLAGS=-mod=mod go test -json -vet=off -count=1 -timeout 25m ./...")

# pid -> (level, technique, level text, level note, design ref)
CHECKS = {
    "C05": ("model_checking",
            "TLA+ spec ImportClosure.tla model-checked by TLC; TLC-generated schedules replayed into the real collector through the verif gate; every recorded trace validated by TLC (ImportClosureTrace.tla)",
            "The collector's goroutine protocol (claim under mutex, read outside, errgroup join, depth-first flatten) is an explicit TLA+ specification; TLC checks ReadOnce/ClosureExact/OrderFixed/termination for every digraph and interleaving of small constants, generates (graph, depth limit, release order) behaviours that are forced onto the real goroutines with the blocking verif hook and a gated reader.Reader, and judges every recorded trace (claim/dup/cut events taken under the mutex, reads, return value) against the specification and the properties. Free-running traces under GOMAXPROCS 1..16 are validated the same way.",
            "Trusts TLC, the gated reader and in-memory layout as stand-ins for golden-retriever/OS; goroutines with equal (file, depth) are treated as interchangeable; remote-style import spellings are served by the substituted reader, real git retrieval and version suffixes are not exercised.",
            "DESIGN.md §6 C05"),
    "C06": ("fault_enumeration",
            "TLC-enumerated fault plans (which file fails, how, and at which point of the retrieval order) from ImportClosure.tla delivered by a gated fault-injecting reader; traces validated by TLC",
            "Every fault plan is a behaviour of the TLA+ specification with fault actions (ReadFail, import-syntax, body-syntax, foreign) enabled; TLC checks FailureFails/CulpritNamed/NoPartialModel/termination on the design and produces the plans; the harness delivers each fault at the scheduled step on the real code and TLC validates the recorded trace and the returned (module, error).",
            "Same trusted base as C05; fault kinds limited to read error, truncated/invalid body, broken import line, unrecognisable foreign file.",
            "DESIGN.md §6 C06"),
    "C18": ("model_checking",
            "TLA+ spec Chroot.tla (segment stack machine, Allowed, per-operation call sets) model-checked by TLC; TLC enumerates every (root, name) of the bounded space; every real ChrootFs operation and every import compile through loader is recorded under a recording afero.Fs and judged by TLC (ChrootTrace.tla)",
            "Exhaustive within the stated alphabet and length: TLC proves on the design that resolution is canonical/idempotent, '.'/'' neutral, '..' undoes a push, and that the call sets stay under the root; it then enumerates every name (<=4 segments quick, <=5 thorough, 6-symbol alphabet, relative and absolute, 4 roots) and the harness records every call that reaches the underlying file system for all 12 wrapper operations (Rename in both argument positions against 5 partner names) and for compiles whose import statement spells the name; TLC checks Confined / Works (spelling-independent resolution) / Refused for every event.",
            "POSIX paths only; the recording afero.Fs is assumed to see all file access (true for everything that goes through the afero.Fs handed to loader).",
            "DESIGN.md §6 C18"),
    "C02": ("model_checking",
            "TLA+ spec Frontend.tla (declaration machine: Step(scope, declaration) -> model facts) model-checked by TLC; TLC-generated programs rendered to Sysl text, compiled by the real parser, the whole module projected to facts and compared with the specification's model by TLC (FrontendTrace.tla)",
            "The intended meaning of every declaration kind is written once, in TLA+, from the language documentation; TLC checks the scope discipline, replay determinism and merge independence on all programs of a small alphabet, generates random well-formed programs over the full shape tables (every documented primitive x size x optional x set/sequence x local/field/cross-app reference, every statement and block kind nested, REST trees, events/subscriptions, enums, unions, aliases, annotations, tags), and judges the real compiler's model fact-for-fact: nothing declared missing or altered, nothing undeclared (including an 'other' bucket for anything the projector cannot classify).",
            "Trusts the harness renderer and projector; constructs outside the modelled vocabulary (views, facades, in-place tuples, collectors) are not generated; undocumented-but-implied constraint values are not compared.",
            "DESIGN.md §6 C02"),
    "C03": ("model_checking",
            "TLA+ spec Lexer.tla (indent stack machine) with scale/tab/blank/comment invariance model-checked by TLC over all line skeletons; the real SyslLexer's INDENT/DEDENT stream validated against it by TLC on enumerated skeletons; layout variants of TLC-generated programs and TLC-enumerated compositions of layout transformations on the repository's corpus compiled and compared (FrontendTrace.tla Variant action)",
            "Three layers: (1) TLC proves on the specification that the token stream depends only on the order relation among code-line widths (all texts of <=4/5 lines, widths 0..6); (2) the hand-written lexer is driven over every enumerated skeleton (incl. mixed space/tab leads, blank, whitespace-only and comment lines) and its structural token stream must equal the specification's; (3) every generated program is rendered in 6 further layouts (canonical, blank-heavy, comment-heavy, per-line tab substitution, scaled) and every corpus file is transformed by TLC-enumerated compositions (scale 1..4 x tabs x blank x comment) and must be accepted iff the original is and compile to the same model without locations.",
            "Comments are inserted at declaration boundaries only (lines where the base compile records the start of an application, type, field, endpoint, statement or view header); lines that begin inside a multi-line token are left alone.",
            "DESIGN.md §6 C03"),
    "C04": ("model_checking",
            "Frontend.tla model-checked by TLC (MergeIndependent: swapping commuting top-level blocks never changes the model); TLC-generated multi-block programs with TLC-chosen assignments of blocks to files compiled in every partition; each partition judged against the specification by TLC and all partitions of one program compared with the joined form",
            "The specification keys application and type members by name, so partition independence is a theorem TLC checks on the design; on the implementation every generated program (3-6 top-level blocks, re-opened applications and types, REST trees, events) is compiled joined and in up to 6 TLC-chosen partitions over three files (star and chain imports) and every result must equal the specification's model and the joined form.",
            "Whole top-level blocks are moved (plus fields of re-opened tuples/tables); statement lists of one endpoint and event endpoints fed by subscriptions are order-sensitive by definition and keep their relative order.",
            "DESIGN.md §6 C04"),
    "C08": ("model_checking",
            "Frontend.tla carries a location history (k-th declaration of an element = its k-th location); the renderer records where it wrote every element; TLC compares the recorded source_contexts of the compiled module with the expected (file, line, column) facts (FrontendTrace.tla Locs action)",
            "For every generated program (random indentation units incl. tabs, blank and comment lines, re-opened applications and types, an earlier field declared again in every later block of a re-opened type, multi-file partitions via C04's plans) every application, type, field, endpoint (simple, REST method, event, subscription) and statement must carry exactly one location per declaration, in declaration order, at the file/line/column where the renderer wrote its first character, with end not before start.",
            "Columns count characters (a tab is one); annotations and parameters are not tracked.",
            "DESIGN.md §6 C08"),
    "C01": ("exploration",
            "Command.tla life cycle (start -> model | error; no action for panic, fatal, timeout) model-checked by TLC; TLC-enumerated construct table (WildGen.tla) and TLC-enumerated corruptions of TLC-generated valid programs compiled by the real parser in a guarded goroutine; every recorded run validated by TLC (CommandTrace.tla)",
            "The judge is small (a run is start then ok or error); the value is in the generator: TLC enumerates every type position x primitive x size form (incl. overflowing digits) x wrapper x optional, every name position x odd name (%-escapes, keywords, separators), each also reached through an import, plus (operation x position) near-misses of generated valid programs, corpus files truncated at line boundaries, and rings of 1-4 declarations referring to one another through every referring relation (mixin, alias, union, field, call, subscription, view call, foreign key; in one file and over imported files). A panic is classified by its first frame inside the repository; a fatal runtime error that kills the driver is attributed to the running scenario and the driver restarted.",
            "In-process compile with a 10 s bound (30 s confirmation); exit-status mapping of the CLI is covered by C20.",
            "DESIGN.md §6 C01"),
    "C13": ("model_checking",
            "TLA+ spec SeqDiagram.tla (reference walk of the call tree with in-progress cut; diagram machine over PlantUML lines) with the intended generator model-checked by TLC on all small call graphs; diagrams generated by the real code for TLC-generated call graphs from every start endpoint, parsed line by line into events and validated by TLC (SeqDiagramTrace.tla)",
            "TLC first shows on every call graph over 2 applications x 2 endpoints (bodies with calls, nesting, recursion, mutual recursion) that a generator following the documented rules satisfies all clauses (declared once, activation balance, calls only while active, blocks closed, arrows = reference walk), so the clauses are satisfiable; then every diagram the real generator produces for TLC-generated programs (3 applications x 2 endpoints, calls in nested if/else/loops/groups/one-of, returns anywhere, self calls, cycles) from every start endpoint, plain and with blackboxes / grouping boxes, is replayed through the same machine (a blackboxed endpoint is shown and never expanded; every declared participant that carries the grouping attribute sits in exactly the box of its value). Termination is the wall-clock bound of the worker; an error return is admissible, a panic or hang is not.",
            "Default labels; every start of every second program is also drawn with up to two other endpoints as blackboxes and, half of the time, grouped by an attribute (boxes); no ~human/~cron participants; the PlantUML reader fails closed.",
            "DESIGN.md §6 C13"),
    "C10": ("model_checking",
            "TLA+ reference interpreter Eval.tla (tagged values, operator semantics, let-programs as behaviours, Pure as an action property) model-checked by TLC; TLC-generated well-typed let-programs rendered as Sysl views, evaluated by the real evaluator, every bound variable read back after all later lets and compared with the reference by TLC (EvalTrace.tla)",
            "TLC is the independent interpreter: the meaning of each operator is written in TLA+; TLC checks determinism and purity of the design exhaustively for short programs and generates type-directed random programs (operands preferably earlier variables, so one binding feeds several later expressions; collection- and concatenation-focused configurations cross slice-capacity steps). The real evaluator's value for every variable, read back at the end, must equal the reference value (sets as sets, with duplicate detection; lists as sequences); each program is evaluated twice for repeatability.",
            "Operand kinds accepted per operator follow the dispatch table of pkg/eval (no other definition exists); covered: integer arithmetic/comparison, string concatenation/equality, and, negation, if-then-else, list concatenation, set union, count, membership, where, set-typed multi-field transforms, calls of another view (scope of the callee), transforms over lists/sets/maps, record construction, attribute access; not covered: flatten, model-typed arguments, calls between views.",
            "DESIGN.md §6 C10"),
    "C14": ("model_checking",
            "TLA+ spec IntsDiagram.tla (the three builder passes as actions, pass-through walk with a walked set, Sound/Complete as predicates, termination as liveness) model-checked by TLC over every call relation x listed/excluded/pass-through choice on 3 applications; TLC-generated models run through the real builder and view generator; dependency list and PlantUML arrows judged by TLC (IntsTrace.tla)",
            "TLC checks on the design that the arrows are sound and complete and that the pass-through walk ends on cyclic pass-through sets; for TLC-generated random models (5 applications, calls nested in every block kind, pass-through chains and cycles, ~human applications and ~hidden endpoints, projects with two views generated in one run, plain/clustered/endpoint-analysis views) the real IntsBuilder's dependency list and the arrows read back from the PlantUML text must satisfy the same Sound/Complete predicates; a crash, stack exhaustion or hang is an unexplained event.",
            "Listed and excluded sets disjoint; at most one ~human application and one application with a ~hidden endpoint per model; endpoint-analysis view judged on the dependency list only. The same call relation also judges the Mermaid integration generator (reported as BEYOND-PROPERTIES, not as a verdict).",
            "DESIGN.md §6 C14"),
    "C15": ("model_checking",
            "TLA+ spec DataModel.tla (expected classes, fields and relationship multiset from the type graph; Judge over the diagram's class/field/edge lines; intended generator) model-checked by TLC on all small type graphs; diagrams generated by the real code for TLC-generated type graphs, parsed into classes, fields and relationship lines and judged by TLC (DataModelTrace.tla)",
            "TLC shows that a generator following the rules satisfies every clause on all type graphs of 3 types x 4 reference fields (satisfiability), then judges the per-application diagram of every application of TLC-generated programs (tuples, tables, enums, primitive and collection aliases, unions; primitive, optional, set/sequence-wrapped, local, self, repeated and cross-application references; namespaced applications): exactly one class per covered type, every field listed with the type it was declared with (primitive name or reference as written, inside Set / Sequence / List), one relationship line per referring field to a drawn type, no line to an alias that no class declares unless the target lives in another application.",
            "Project-manner generation with one application per view; multiplicity labels not compared; field references (T.f) from tuples are neither required nor forbidden.",
            "DESIGN.md §6 C15"),
    "C17": ("model_checking",
            "TLA+ spec Relmod.tla (census relation: rows = census of the compiled model per relation, statement position paths distinct, same rows twice) evaluated by TLC on every schema the real relmod.Normalize returns for TLC-generated programs (RelmodTrace.tla)",
            "The specification states what 'lossless image' means as set equations over rows; TLC evaluates them on the rows of every recorded schema against a census the harness takes from the compiled module independently of relmod (applications, mixins, endpoints, events, REST data, statements with 0-based position paths incl. one row per alt choice, types, table keys, fields, enum items, aliases, tags, string annotations, status and type of simple return payloads). About half of the programs are run again with one return payload replaced by text the payload grammar refuses (the build must then be refused as a whole). Inputs are TLC-generated programs over all declaration kinds plus call-graph programs nested up to 6 blocks deep; Normalize runs twice per model in a guarded worker (an error is an admissible refusal, a crash is not).",
            "The state-space numbers in the evidence are those of the trace-validation runs (there is no separate design-level model check: the relation is stateless). Parameters, views, array annotations and source-context relations are not compared.",
            "DESIGN.md §6 C17"),
    "C16": ("model_checking",
            "TLA+ spec DbCatalog.tla (relational catalog; each emitted DDL statement an action with the database's enabling conditions; Expected(version) with transitive foreign-key types) and DbGen.tla (version histories by edit actions; intended creation script checked by TLC); the real generator's creation and delta scripts tokenised into statement events and run on the catalog machine by TLC (DbCatalogTrace.tla)",
            "The emitted SQL is interpreted, not diffed: TLC executes every statement of every script on the catalog machine, which flags a table created twice or before a table it references, unknown or untyped columns, missing constraints, and compares the resulting catalog with Expected(version): create(v) must reach Expected(v); create(old) followed by delta(old,new) must leave every table of the new version with exactly its columns, types and keys; delta(v,v) must change nothing. Histories are TLC-generated: up to 4 tables, acyclic foreign keys to keys, plain columns and other foreign keys, composite keys, autoincrement, sized strings, 2-3 steps of one to three edits each (add/drop/retype column, add/drop table, toggle key, add/drop reference, toggle autoincrement), tables and columns in shuffled text order, every third history spread over two files.",
            "Postgres semantics are modelled for existence, dependency order and types only; the evidence's state counts are those of the trace-validation runs plus the simulation of DbGen with the CreateIsExact invariant.",
            "DESIGN.md §6 C16"),
    "C19": ("exploration",
            "Determinism.tla (a deterministic-function object: the first observation of (generator, option, model) fixes the output) model-checked by TLC; every generator run repeatedly in-process and in two processes on TLC-generated models with several entries per map; every observation validated by TLC (DeterminismTrace.tla)",
            "Repetition can refute determinism, not prove it; what makes a refutation likely is the input: TLC-generated programs with two or more applications, types, fields, endpoints, parameters and enum items, call graphs, type graphs, chained mixins and relational histories of DbGen.tla (incl. chains of foreign keys to foreign keys; the delta script between the last two versions is one more generator). About 30 (generator, option) entry points (compile itself, pb text/json/compact/binary, printer, sequence / integration (plain, clustered, endpoint analysis) / data-model diagrams, Mermaid forms, Swagger and OpenAPI 3 in yaml and json, database creation script, relational model) are each run 5 (quick) or 12 (thorough) times per process in 2 processes; TLC replays all observations through the specification's Observe action.",
            "Generators are called through library entry points; failing generators contribute nothing here (C20); importers are not included.",
            "DESIGN.md §6 C19"),
    "C07": ("exploration",
            "CompileConc.tla (global lexer-state map: allocate, get-or-create, delete at end, address reuse) model-checked by TLC (and its never-delete variant shown to violate the invariants); concurrent compilations of TLC-generated and corpus sources under the Go race detector; every result validated by TLC against the sequential baseline (Determinism.tla Observe) and the quiescence clause (CompileConcTrace.tla)",
            "The protocol that makes the lexer state safe is model-checked exhaustively for 3 parses x 2 addresses; the implementation is then run, built with -race and the verif tag, in waves of 2/8/64/16 goroutines under GOMAXPROCS 1/2/4/16 with random start offsets and forced GC between waves (address reuse), over TLC-generated programs (incl. chained mixins, whose result depends on post-processing order), corpus files and import closures with diamonds. Every text and JSON digest must equal the first observation of the same source (every second driver process starts cold: 64 concurrent compilations before anything else has been compiled, the sequential pass last); the global lexer-state map must be empty at every quiescent point; any race-detector report is a violation.",
            "Schedules are sampled, not enumerated; the race detector only sees executed interleavings.",
            "DESIGN.md §6 C07"),
    "C09": ("model_checking",
            "Codec.tla (artefact store: compile, encode, decode, JSON validity, re-import, suffix dispatch) model-checked by TLC; attribute strings enumerated by TLC (StringGen.tla) and TLC-generated programs encoded by the real pbutil encoders and the sysl pb command in every encoding, decoded and re-imported; every observation validated by TLC (CodecTrace.tla)",
            "Every model (a template exercising collectors, mixins, views, events and REST endpoints with each enumerated string at every attribute position; TLC-generated programs whose attribute values are drawn from the enumeration; every .sysl file of the repository) is encoded as pb, JSON and textpb, indented and compact, by the library and (for a sample) by the command line. The bytes are checked for JSON well-formedness, decoded with pbutil.FromPB and compared by digest of the deterministic binary encoding (compact JSON: without locations), and re-imported through a one-line specification whose applications must equal the original's. An OpenAPI document written as JSON must reach the foreign importer under the name api.json exactly as under api.yaml.",
            "Strings are bounded (length 3 over 9 characters plus key-like shapes); model equality is digest equality; split-apps output is not covered.",
            "DESIGN.md §6 C09"),
    "C11": ("model_checking",
            "InteropFacts.tla / Interop.tla (abstract document, the facts any carrier must contain, stage machine render-import-compile-observe-again) model-checked by TLC; documents enumerated and sampled by TLC (InteropGen.tla) rendered as OpenAPI 2/3, XSD and SQL DDL, imported by the real importers, the emitted Sysl compiled by the real parser; every stage outcome and observed fact set validated by TLC against the expected facts (InteropTrace.tla)",
            "TLC computes from each abstract document the set of facts (type, field with kind / array / required / key, operation, parameter, response) that the compiled import must contain, restricted to what the format can express; the driver only reports stage outcomes and the facts it finds in the compiled model. Documents: every (name, kind, array, required) shape of one field incl. references, self-references, enumerations and inline objects; one operation over method x path x parameter and method x body x response; every pair of operations on one path item with path parameters on the item or on the operations; random multi-type documents incl. names needing escaping. Each document is rendered as Swagger 2 and OpenAPI 3 (yaml/json), XSD and SQL (Spanner / Postgres / MySQL flavour, inline or table-level key clauses), imported twice (identical text), compiled, and for a sample imported through an `import x.yaml as App` statement.",
            "The abstract vocabulary is the common subset (no allOf/oneOf, no XSD attributes or groups, no composite foreign keys); whether a body is required is not compared; the arr.ai importers get a rotating quarter of the exhaustive shapes in the quick tier.",
            "DESIGN.md §6 C11"),
    "C12": ("model_checking",
            "Interop.tla stage machine (compile-export-validate-read-importback) model-checked by TLC; TLC-generated documents written as REST-style Sysl applications, exported by the real Swagger and OpenAPI 3 exporters (yaml/json), validated with the OpenAPI library, read generically and imported back; every stage outcome and fact set validated by TLC against the expected facts (InteropTrace.tla)",
            "The same abstract documents (restricted to the exportable subset by ExportDoc) are rendered as Sysl, compiled by the real parser and exported; the exported bytes must load and validate with kin-openapi (Swagger 2 after conversion), a generic reader must find every expected fact incl. enumeration members in the document, and importing the document back must give a model with every expected fact.",
            "Exportable subset: no inline objects, scalar query/header parameters, at least one operation; whether a body is required is not compared; most Swagger 2 shortfalls are long-standing and listed as known findings.",
            "DESIGN.md §6 C12"),
    "C20": ("exploration",
            "Command.tla life cycle model-checked by TLC; the sysl binary built from the working tree run as a subprocess per (model, command, option set) over hand-written untidy models and TLC-generated programs; every run validated by TLC (CommandTrace.tla)",
            "A search over the product space (model shape x command x options) with a trivial judge: each of ~20 command / option sets (pb text/json, validate, sd per endpoint, ints plain/epa/clustered, datamodel direct/project, export swagger yaml/json, proto, spanner, generate-db-scripts and -delta per application) is run on 17 hand-written untidy shapes (dangling call targets and endpoints, call cycles, dangling/cyclic/recursive type references, table references to non-tables, whole types, missing tables and cycles, empty applications, pass-through cycles, case-variant and REST-style calls) and on TLC-generated programs whose calls and references are left dangling. TLC replays start/outcome events through Command.tla: exit 0 with output, or non-zero with a message; 'panic:', 'fatal error:' and timeouts are unexplained. Crash sites are identified by the first repository frame.",
            "Diagrams are written as .puml (no PlantUML server / browser); `sysl diagram` and `sysl import` are not run here (C19 / C11).",
            "DESIGN.md §6 C20"),
}

PENDING = {}


def main():
    props = [json.loads(l) for l in open(os.path.join(core.ROOT, "properties.jsonl"))]
    checks, na = [], []
    for p in props:
        pid = p["id"]
        if pid in CHECKS:
            level, tech, text, note, ref = CHECKS[pid]
            checks.append({
                "property_id": pid,
                "quick_cmd": "python3 verif.py check %s --tier quick" % pid,
                "thorough_cmd": "python3 verif.py check %s --tier thorough" % pid,
                "evidence_file": "/verif/evidence/%s.json" % pid,
                "replay_cmd_template": "python3 verif.py replay {path}",
                "engine": "tlc+vh",
                "level_claimed": {"category": level, "text": text, "design_ref": ref},
                "level_note": note,
                "technique": tech,
            })
        else:
            na.append({"property_id": pid, "reason": PENDING.get(pid, "check not built yet in this round; see DESIGN.md §11 build order")})
    m = {
        "version": 1,
        "setup_cmd": "python3 verif.py setup",
        "hooks": {"guard": "verif", "enable": "go build -tags verif (the harness module replaces github.com/anz-bank/sysl with /repo)",
                  "baseline_off_cmd": BASELINE_OFF, "source_commits": HOOK_COMMITS, "add_only": True},
        "engines": [{"name": "tlc+vh", "path": "/verif/verif.py",
                     "serves_properties": sorted(CHECKS),
                     "kind_free_text": "TLA+ specifications (spec/) checked and used as scenario generators and trace judges by TLC; Go harness (harness/cmd/vh) replays scenarios into the real code built from /repo with -tags verif and records ndjson traces"}],
        "checks": checks,
        "notes": "Exit codes: 0 held (KNOWN-FINDING lines possible), 1 VIOLATION, 2 infrastructure failure. VERIF_SEED seeds TLC -seed and harness choices.",
        "not_applicable": na,
    }
    with open(os.path.join(core.ROOT, "MANIFEST.json"), "w") as f:
        json.dump(m, f, indent=1)
        f.write("\n")


if __name__ == "__main__":
    main()
