"""C01: compilation is total (spec/Command*.tla, spec/WildGen.tla)."""
import base64
import json
import random

from . import core, fam_frontend

TYPE_TMPL = {
    "field": "App:\n    !type T:\n        f <: {T}\n        g <: int\nOther:\n    !type T:\n        x <: int\n",
    "tablefield": "App:\n    !table T:\n        f <: {T} [~pk]\n",
    "param": "App:\n    !type T:\n        f <: int\n    Ep (p <: {T}):\n        ...\n",
    "alias": "App:\n    !alias Al:\n        {T}\n",
    "union": "App:\n    !type T:\n        f <: int\n    !union U:\n        {T}\n",
    "restvar": "App:\n    /a/{id <: {T}}:\n        GET:\n            ...\n",
    "query": "App:\n    /a:\n        GET ?q={T}:\n            ...\n",
    "ret": "App:\n    Ep:\n        return ok <: {T}\n",
    "viewparam": "App:\n    !view v(a <: {T}) -> int:\n        a -> (:\n            x = 1\n        )\n",
    "inplace": "App:\n    !type T:\n        f <:\n            g <: {T}\n",
}

NAME_TMPL = {
    "app": "{N}:\n    Ep:\n        ...\n",
    "type": "App:\n    !type {N}:\n        f <: int\n",
    "field": "App:\n    !type T:\n        {N} <: int\n",
    "ep": "App:\n    {N}:\n        ...\n",
    "callapp": "App:\n    Ep:\n        {N} <- Ep\n",
    "callep": "App:\n    Ep:\n        Other <- {N}\nOther:\n    Ep:\n        ...\n",
    "event": "App:\n    <-> {N}:\n        ...\n",
    "subsrc": "App:\n    {N} -> Ev:\n        ...\n",
    "subev": "App:\n    Other -> {N}:\n        ...\n",
    "mixin": "App:\n    -|> {N}\n    Ep:\n        ...\n",
    "enumitem": "App:\n    !enum E:\n        {N}: 1\n",
    "annoname": "App:\n    @{N} = \"x\"\n    Ep:\n        ...\n",
    "attrvalue": "App [a=\"{N}\"]:\n    Ep:\n        ...\n",
    "import": "import {N}\nApp:\n    Ep:\n        ...\n",
    "refapp": "App:\n    !type T:\n        f <: {N}.x\n",
    "param": "App:\n    Ep ({N} <: int):\n        ...\n",
    "restpart": "App:\n    /{N}:\n        GET:\n            ...\n",
    "queryname": "App:\n    /a:\n        GET ?{N}=int:\n            ...\n",
    "action": "App:\n    Ep:\n        {N}\n",
    "rettext": "App:\n    Ep:\n        return {N}\n",
    "cond": "App:\n    Ep:\n        if {N}:\n            ...\n",
    "grouplabel": "App:\n    Ep:\n        {N}:\n            ...\n",
    "longname": "App \"{N}\":\n    Ep:\n        ...\n",
    "tag": "App [~{N}]:\n    Ep:\n        ...\n",
}


def corrupt(text, op, at, rng):
    """Near-misses of a valid program; `at` in 0..19 is the relative position."""
    b = text.encode()
    lines = text.split("\n")
    li = min(len(lines) - 1, at * len(lines) // 20)
    bi = min(max(len(b) - 1, 0), at * len(b) // 20)
    if op == "dropline":
        return "\n".join(lines[:li] + lines[li + 1:]).encode()
    if op == "dupline":
        return "\n".join(lines[:li + 1] + lines[li:]).encode()
    if op == "swaplines" and li + 1 < len(lines):
        l2 = lines[:]
        l2[li], l2[li + 1] = l2[li + 1], l2[li]
        return "\n".join(l2).encode()
    if op == "truncline":
        return "\n".join(lines[:li + 1]).encode()
    if op == "truncbyte":
        return b[:bi]
    if op == "indentmore":
        l2 = lines[:]
        l2[li] = "   " + l2[li]
        return "\n".join(l2).encode()
    if op == "indentless":
        l2 = lines[:]
        l2[li] = l2[li][1:] if l2[li][:1] in (" ", "\t") else l2[li]
        return "\n".join(l2).encode()
    if op == "strayNUL":
        return b[:bi] + b"\x00" + b[bi:]
    if op == "strayFF":
        return b[:bi] + b"\xff" + b[bi:]
    if op == "strayCR":
        return b[:bi] + b"\r" + b[bi:]
    if op == "dropcolon":
        i = text.find(":", bi)
        return (text[:i] + text[i + 1:]).encode() if i >= 0 else b
    if op == "tabify":
        l2 = lines[:]
        l2[li] = l2[li].replace("    ", "\t", 1)
        return "\n".join(l2).encode()
    if op == "dropchar":
        return b[:bi] + b[bi + 1:]
    if op == "dupchar":
        return b[:bi] + b[bi:bi + 1] + b[bi:]
    return b


def b64(x):
    return base64.b64encode(x if isinstance(x, bytes) else x.encode()).decode()


def ring_files(rel, n, files):
    """n declarations referring to one another in a ring through relation rel; one application per file when files is set."""
    nxt = lambda i: (i + 1) % n
    apps = []
    if rel in ("mixin", "call", "subscribe"):
        for i in range(n):
            a, b = "R%d" % i, "R%d" % nxt(i)
            if rel == "mixin":
                body = "%s [~abstract]:\n    -|> %s\n    !type T%d:\n        x <: int\n" % (a, b, i)
            elif rel == "call":
                body = "%s:\n    e:\n        %s <- e\n        return ok <: string\n" % (a, b)
            elif rel == "subscribe":
                body = "%s:\n    <-> Ev:\n        ...\n    %s -> Ev:\n        %s <- Ev\n" % (a, b, b)
            apps.append(body)
    else:
        lines = ["R0:"]
        for i in range(n):
            j = nxt(i)
            if rel == "alias":
                lines += ["    !alias A%d:" % i, "        A%d" % j]
            elif rel == "aliasseq":
                lines += ["    !alias A%d:" % i, "        sequence of A%d" % j]
            elif rel == "union":
                lines += ["    !union U%d:" % i, "        U%d" % j, "        int"]
            elif rel == "field":
                lines += ["    !type T%d:" % i, "        n <: T%d" % j]
            elif rel == "fieldseq":
                lines += ["    !type T%d:" % i, "        n <: set of T%d?" % j]
            elif rel == "viewcall":
                lines += ["    !view V%d(x <: int) -> int:" % i, "        x -> (:", "            y = V%d(x)" % j, "        )"]
            elif rel == "tablefk":
                lines += ["    !table T%d:" % i, "        id <: int [~pk]", "        r <: T%d.id" % j]
        apps.append("\n".join(lines) + "\n")
    if not files or len(apps) == 1:
        return {"main.sysl": "\n".join(apps)}
    out = {"main.sysl": "".join("import f%d\n" % i for i in range(1, len(apps))) + "\n" + apps[0]}
    for i in range(1, len(apps)):
        out["f%d.sysl" % i] = apps[i]
    return out


def attr_text(name, kind):
    """One attribute (or nothing) in brackets, for a value of the given kind."""
    v = {"string": '%s="x"' % name, "list": '%s=["y"]' % name, "empty": "%s=[]" % name, "nested": '%s=[["z", "w"], ["v"]]' % name,
         "modifier": "~foo" if name == "patterns" else '~%s' % name, "multiline": '%s="x"' % name, "none": ""}[kind]
    return " [%s]" % v if v else ""


MERGE_TMPL = {
    "collector-ep": "App:\n    Ep{A}:\n        ...\n    .. * <- *:\n        Ep{B}\n",
    "collector-call": "App:\n    Ep:\n        ...\n    Caller:\n        App <- Ep{A}\n    .. * <- *:\n        App <- Ep{B}\n",
    "collector-rest": "App:\n    /a:\n        GET{A}:\n            ...\n    .. * <- *:\n        GET /a{B}\n",
    "collector-pubsub": "Pub:\n    <-> Ev{A}:\n        ...\n    .. * <- *:\n        Sub <- Pub -> Ev{B}\nSub:\n    Pub -> Ev{A}:\n        ...\n",
    "app-again": "App{A}:\n    Ep:\n        ...\nApp{B}:\n    Ep2:\n        ...\n",
    "ep-again": "App:\n    Ep{A}:\n        ...\nApp:\n    Ep{B}:\n        ...\n",
    "type-again": "App:\n    !type T{A}:\n        f <: int\nApp:\n    !type T{B}:\n        g <: int\n",
    "rest-again": "App:\n    /a:\n        GET{A}:\n            ...\nApp:\n    /a:\n        GET{B}:\n            ...\n",
    "annotation": "App:\n    Ep{A}:\n        @{N} = {BV}\n        ...\n",
    "rest-nested": "App:\n    /a{A}:\n        /b{B}:\n            GET{A}:\n                ...\n",
    "event-sub": "Sub:\n    Pub -> Ev{B}:\n        ...\nPub:\n    <-> Ev{A}:\n        ...\n",
    "view-again": "App:\n    !view v(a <: int) -> int{A}:\n        a -> (:\n            x = 1\n        )\nApp:\n    !view v(a <: int) -> int{B}:\n        a -> (:\n            x = 1\n        )\n",
    "mixin": "Base{A}[~abstract]:\n    Ep{A}:\n        ...\nApp{B}:\n    -|> Base\n    Ep{B}:\n        ...\n",
}


def merge_program(s):
    a, b = attr_text(s["name"], s["first"]), attr_text(s["name"], s["second"])
    bv = {"string": '"x"', "list": '["y"]', "empty": "[]", "nested": '[["z", "w"], ["v"]]', "modifier": '["foo"]',
          "multiline": ":\n            | line one\n            | line two", "none": '""'}[s["second"]]
    return MERGE_TMPL[s["pos"]].replace("{A}", a).replace("{B}", b).replace("{N}", s["name"]).replace("{BV}", bv)


def check_c01(ctx):
    quick = ctx.quick()
    rng = random.Random(ctx.seed)
    core.build_vh(ctx)
    mc = core.model_check(ctx, "Command", "MCCommand.cfg")
    table = core.generate(ctx, "WildGen", "GenWild.cfg")
    scn = []

    def add(files, root="main.sysl", what=None):
        scn.append({"id": len(scn) + 1, "files": {k: b64(v) for k, v in files.items()}, "root": root, "what": what})

    types = [s for s in table if s["kind"] == "type"]
    names = [s for s in table if s["kind"] == "name"]
    ops = [s for s in table if s["kind"] == "corrupt"]
    if quick:
        types = rng.sample(types, 2500)
    for s in types:
        add({"main.sysl": TYPE_TMPL[s["pos"]].replace("{T}", s["text"])}, what=s)
    for s in names:
        prog = NAME_TMPL[s["pos"]].replace("{N}", s["text"])
        add({"main.sysl": prog}, what=s)
        # the same file reached through an import
        add({"main.sysl": "import dep\nRoot:\n    Ep:\n        ...\n", "dep.sysl": prog}, what=dict(s, via="import"))
    # rings of declarations that refer to one another
    for s in [x for x in table if x["kind"] == "ring"]:
        add(ring_files(s["rel"], s["n"], s["files"]), what=s)
    # one attribute, two sources, values of different kinds
    for s in [x for x in table if x["kind"] == "attrmerge"]:
        add({"main.sysl": merge_program(s)}, what=s)
    # collector entries and calls whose target applications share leading name parts
    for s in [x for x in table if x["kind"] == "collectortarget"]:
        apps = ["Bank", "Bank :: Accounts", "Bank :: Accounts :: Ledger", "Other"]
        text = ""
        for a in apps:
            text += "%s:\n    Read:\n        ...\n" % a
            if a == s["owner"]:
                text += "    Caller:\n        %s <- Read\n        if x:\n            %s <- Read\n    .. * <- *:\n        %s <- Read [~audited]\n" % (s["call"], s["call"], s["entry"])
        add({"main.sysl": text}, what=s)
    # near-misses of an import statement
    for s in [x for x in table if x["kind"] == "importline"]:
        body = "App:\n    Ep:\n        ...\n"
        if s["place"] == "first":
            text = s["line"] + "\n" + body
        elif s["place"] == "second":
            text = "import dep2\n" + s["line"] + "\n" + body
        else:
            text = body + s["line"]
        files = {"dep2.sysl": "Dep2:\n    Ep:\n        ...\n", "dep3.sysl": "Dep3:\n    Ep:\n        ...\n"}
        if s["where"] == "root":
            files["main.sysl"] = text
        else:
            files["main.sysl"] = "import dep\nRoot:\n    Ep:\n        ...\n"
            files["dep.sysl"] = text
        add(files, what=s)
    # near-misses of valid generated programs
    progs = fam_frontend.programs(ctx, 40 if quick else 400, seed_off=1)
    for p in progs:
        p["text"] = True
    pev, _ = core.vh_sharded(ctx, "frontend", progs, timeout=3000)
    texts = [e["text"]["main.sysl"] for e in pev if e["e"] == "begin" and "text" in e]
    for ti, text in enumerate(texts):
        for s in (rng.sample(ops, 40) if quick else ops):
            add({"main.sysl": corrupt(text, s["op"], s["at"], rng)}, what=dict(s, program=ti))
    # corpus files truncated at line boundaries
    import os
    files = fam_frontend.corpus_files()
    for f in (rng.sample(files, 40) if quick else files):
        try:
            text = open(os.path.join(core.repo_dir(), f), errors="replace").read()
        except OSError:
            continue
        lines = text.split("\n")
        step = max(1, len(lines) // (6 if quick else 40))
        for k in range(1, len(lines), step):
            add({"main.sysl": "\n".join(lines[:k])}, what={"kind": "corpus-truncated", "file": f, "line": k})
    # import closures: graphs with faults and import-as name conflicts, free-running (termination and crashes only)
    from . import fam_import
    ic = fam_import._scenarios(ctx, [("GenImportAlias4.cfg", 150 if quick else 1500, 7), ("GenImportFaults4.cfg", 100 if quick else 1000, 8)], 0)
    for i, s in enumerate(ic):
        s["mode"], s["procs"] = "free", [1, 2, 4, 16][i % 4]
        s.pop("sched", None)
    icev, _ = core.vh_sharded(ctx, "importclosure", ic, timeout=3000, resilient=True)
    for e in icev:
        if e["e"] in ("panic", "timeout", "fatal"):
            s = [x for x in ic if x["id"] == e["t"]][0]
            core.add_violation(ctx, "C01/import-closure/%s" % e["e"], "import closure %s: %s" % (e["e"], json.dumps({k: s[k] for k in ("imports", "aliases", "fail", "maxd")})),
                               {"family": "importclosure", "scenario": s})
    events, _ = core.vh_sharded(ctx, "compile", scn, timeout=3000, resilient=True)
    prints, nev, _ = core.validate(ctx, "CommandTrace", "CommandTrace.cfg", events, chunk=60000)
    by_t = {}
    for e in events:
        by_t.setdefault(e["t"], []).append(e)
    outcomes = {"ok": 0, "error": 0}
    for e in events:
        if e["e"] in outcomes:
            outcomes[e["e"]] += 1
    sites = set()
    for kind, p in prints:
        t = p["t"]
        s = scn[t - 1]
        if kind == "REJECT":
            ev = [e for e in by_t[t] if e["e"] == p["what"]][0]
            site = ev.get("site", p["what"])
            sites.add(site)
            sig = "C01/%s/%s" % (p["what"], site)
            text = {k: base64.b64decode(v).decode(errors="replace")[:400] for k, v in s["files"].items()}
            core.add_violation(ctx, sig, "%s at %s (%s) for %s: %s" % (p["what"], site, ev.get("msg", ""), json.dumps(s["what"]), json.dumps(text)),
                               {"family": "compile", "scenario": s})
        elif kind == "VERDICT":
            core.add_violation(ctx, "C01/" + "+".join(sorted(p["what"])), "outcome malformed for %s" % json.dumps(s["what"]),
                               {"family": "compile", "scenario": s})
    kinds = {}
    for s in scn:
        k = s["what"].get("kind")
        kinds[k] = kinds.get(k, 0) + 1
    distinct = len({json.dumps(s["files"], sort_keys=True) for s in scn})
    cov = {"evaluations": len(scn), "distinct_nontrivial": distinct,
           "rule": "TLC-enumerated construct table (type position x primitive x size form x wrapper x optional; name position x odd name), "
                   "the same files reached through an import, TLC-enumerated (operation x relative position) corruptions of TLC-generated "
                   "valid programs, and corpus files truncated at line boundaries; distinct = different file contents",
           "by_kind": kinds, "outcomes": outcomes, "import_closures_run": len(ic), "states": mc.distinct, "transitions": mc.generated,
           "traces_validated_against_impl": len(scn),
           "samples": [scn[0]["what"], scn[len(scn) // 2]["what"], scn[-1]["what"]]}
    return core.finish(ctx, "exploration", cov, [
        "compiles run in-process in a guarded goroutine (recover only classifies the panic) with a 10 s bound, re-run with 30 s before a hang is reported",
        "a fatal runtime error (stack exhaustion) kills the driver process: the orchestrator attributes it to the running scenario (event `fatal`, which the life cycle cannot explain) and restarts the driver",
        "one attribute given to one element by two sources (collector statement, re-declaration, annotation, nested REST block, event and subscriber, mixin) with every pair of value kinds (string, list, empty list, nested list, ~modifier, multi-line, absent)",
        "a collector call entry and a call statement with one endpoint name whose target applications are equal, different, or one a leading part of the other's name",
        "near-misses of an import statement (the bare keyword, keyword and tab, two paths, a dangling `as`, ...) in the root or an imported file, as first line, after an import, or as the last bytes of the file",
        "rings of 1..4 declarations through every referring relation (mixin, alias, union, field, call, subscription, view call, foreign key), in one file and spread over imported files",
    ])
