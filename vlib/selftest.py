"""selftest: demonstrates that the trace specifications are bound to what the drivers record.

For three families a small good trace is recorded from the real code and accepted without any verdict line; then
(a) one recorded field is corrupted and (b) one event is deleted, and TLC must answer with a VERDICT / REJECT /
DIFF line for exactly the tampered trace.  A trace specification that only counted lines would accept all of them."""
import copy
import json

from . import core
from .core import log


def _flagged(prints):
    return {p["t"] for k, p in prints if k in ("VERDICT", "REJECT", "DIFF")}


def _case(ctx, name, module, cfg, events, tamper):
    """events: a good multi-trace run; tamper(list of events of one trace) -> tampered list or None."""
    prints, _, _ = core.validate(ctx, module, cfg, copy.deepcopy(events))
    clean = sorted({e["t"] for e in events} - _flagged(prints))
    if not clean:
        raise core.Infra("selftest %s: no clean trace to tamper with" % name)
    ok = True
    for label, f in tamper:
        done = False
        for t in clean:
            mine = [copy.deepcopy(e) for e in events if e["t"] == t]
            bad = f(mine)
            if bad is None:
                continue
            keep = set([x for x in clean if x != t][:25])
            others = [copy.deepcopy(e) for e in events if e["t"] in keep]
            prints2, _, _ = core.validate(ctx, module, cfg, others + bad)
            fl = _flagged(prints2)
            if t in fl and not (fl - {t}):
                log("[selftest] %s / %s: tampered trace %s rejected, %d untouched traces accepted" % (name, label, t, len({e['t'] for e in others})))
            else:
                log("[selftest] %s / %s: NOT DETECTED (flagged %s)" % (name, label, sorted(fl)))
                ok = False
            done = True
            break
        if not done:
            raise core.Infra("selftest %s / %s: no trace offers the event to tamper with" % (name, label))
    return ok


def _set(field, value, event):
    def f(evs):
        for e in evs:
            if e["e"] == event and field in e:
                e[field] = value(e[field]) if callable(value) else value
                return evs
        return None
    return f


def _drop(event, skip=0):
    def f(evs):
        n = 0
        for i, e in enumerate(evs):
            if e["e"] == event:
                if n == skip:
                    return evs[:i] + evs[i + 1:]
                n += 1
        return None
    return f


def run(seed):
    ctx = core.Ctx("selftest", "quick", seed)
    core.build_vh(ctx)
    ok = True
    # import closure: claims, reads and the returned order
    from . import fam_import
    scn = fam_import._scenarios(ctx, [("GenImportClosure3.cfg", 60, 1)], free_every=0)
    events, _ = core.vh(ctx, "importclosure", scn)
    events = [e for e in events if e["e"] != "start"]
    ok &= _case(ctx, "importclosure", "ImportClosureTrace", "ImportClosureTrace.cfg", events, [
        ("returned order reversed", _set("processed", lambda v: list(reversed(v)) if len(v) > 1 else None, "ret")),
        ("a read event deleted", _drop("read")),
        ("a claim event deleted", _drop("claimed", 1)),
    ])
    # codec: digests of decoded models
    from . import fam_codec
    tmpl = open(fam_codec.TEMPLATE).read()
    cscn = [{"id": i + 1, "text": tmpl.replace('"S1"', json.dumps(s))} for i, s in enumerate(["a", "b\"c", "d\\e"])]
    cev, _ = core.vh(ctx, "codec", cscn)
    ok &= _case(ctx, "codec", "CodecTrace", "CodecTrace.cfg", cev, [
        ("digest of a decoded model changed", _set("full", "0000000000000000", "decode")),
        ("re-import digest changed", _set("apps", "0000000000000000", "reimport")),
        ("JSON validity flipped", _set("ok", False, "jsonvalid")),
    ])
    # interop: observed facts
    from . import fam_interop
    docs = core.generate(ctx, "InteropGen", "GenInteropRandom.cfg", num=12, depth=20, seed=seed * 7 + 3)
    tmp = ctx.sub("tmp")
    iscn = [{"id": i + 1, "doc": d["openapi"], "dir": "import", "fmt": "swagger", "enc": "yaml", "via": "", "seed": seed, "tmp": tmp}
            for i, d in enumerate(docs)]
    iev, _ = core.vh(ctx, "interop", iscn)
    iev = [{k: v for k, v in e.items() if k not in ("text", "shape")} for e in iev]

    def drop_fact(evs):
        for e in evs:
            if e["e"] == "stage" and e.get("name") == "observe" and e.get("facts"):
                e["facts"] = e["facts"][1:]
                return evs
        return None
    ok &= _case(ctx, "interop", "InteropTrace", "InteropTrace.cfg", iev, [
        ("one observed fact removed", drop_fact),
        ("compile outcome flipped", _set("ok", False, "stage")),
    ])
    log("[selftest] %s" % ("all tampered traces were rejected" if ok else "FAILED"))
    return 0 if ok else 2
