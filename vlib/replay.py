"""replay <path>: re-run the real code on the stored scenario and judge the new trace with TLC."""
import json

from . import core
from .core import log


def run(path, seed):
    rep = json.load(open(path))
    pid = rep["property"]
    fam = rep["replay"].get("family")
    ctx = core.Ctx(pid + "-replay", "quick", seed)
    from . import families
    f = families.REPLAY.get(fam)
    if f is None:
        log("no single-scenario replayer for family %s: running the quick check of %s again" % (fam, pid))
        f = families._rerun
    log("replaying %s (%s): %s" % (pid, rep["signature"], rep["what"][:300]))
    sigs = f(ctx, pid, rep["replay"])
    for s in sigs:
        log("reproduced: %s" % s)
    if rep["signature"] in sigs:
        log("VIOLATION property=%s replay=%s" % (pid, path))
        return 1
    log("not reproduced on this tree")
    return 0
