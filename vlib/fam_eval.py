"""C10: view evaluation (spec/Eval*.tla)."""
import json

from . import core


def check_c10(ctx):
    quick = ctx.quick()
    core.build_vh(ctx)
    mc = core.model_check(ctx, "EvalGen", "MCEval1.cfg" if quick else "MCEval.cfg", timeout=2400)
    gen = core.generate(ctx, "EvalGen", "GenEval.cfg", num=400 if quick else 8000, depth=9, seed=ctx.seed * 100 + 10, timeout=2400)
    gen2 = core.generate(ctx, "EvalGen", "GenEval12.cfg", num=100 if quick else 2000, depth=14, seed=ctx.seed * 100 + 11, timeout=2400)
    gen3 = core.generate(ctx, "EvalGen", "GenEvalColl.cfg", num=250 if quick else 3000, depth=12, seed=ctx.seed * 100 + 12, timeout=2400)
    gen4 = core.generate(ctx, "EvalGen", "GenEvalConcat.cfg", num=500 if quick else 4000, depth=10, seed=ctx.seed * 100 + 13, timeout=2400)
    scn = [{"id": i + 1, "lets": g["lets"], "reps": 2} for i, g in enumerate(gen + gen2 + gen3 + gen4)]
    events, _ = core.vh_sharded(ctx, "evalview", scn, timeout=3000, resilient=True)
    prints, nev, _ = core.validate(ctx, "EvalTrace", "EvalTrace.cfg", events, chunk=40000)
    by_id = {s["id"]: s for s in scn}
    starts = {e["t"]: e for e in events if e["e"] == "start"}
    results = {}
    for e in events:
        if e["e"] == "result":
            results.setdefault(e["t"], []).append(e["vals"])
    # equal inputs give equal results (two evaluations of the same parsed view)
    for t, rs in results.items():
        if len(rs) > 1 and any(r != rs[0] for r in rs[1:]):
            core.add_violation(ctx, "C10/NotRepeatable", "program %d evaluates differently the second time: %s" % (t, starts[t]["text"]),
                               {"family": "evalview", "scenario": by_id[t]})
    ops_seen = set()
    for s in scn:
        for l in s["lets"]:
            ops_seen.add((l["op"], tuple("ref" if "ref" in a else a["lit"]["k"] for a in l["args"])))
    for kind, p in prints:
        t = p["t"]
        if kind == "VERDICT":
            w = p["what"]
            sig = "C10/" + "+".join(sorted(w["bad"])) + "/" + "+".join(sorted(w["ops"]))
            what = "program %d: %s for variables %s:\n%s\nreturned %s" % (t, sorted(w["bad"]), sorted(w["vars"]), starts[t]["text"],
                                                                        json.dumps({v: results[t][0].get(v) for v in w["vars"]})[:500])
        elif kind == "REJECT":
            sig = "C10/NoResult:" + str(p["what"])
            what = "program %d ended with %s:\n%s" % (t, p["what"], starts.get(t, {}).get("text", ""))
        else:
            continue
        core.add_violation(ctx, sig, what, {"family": "evalview", "scenario": by_id[t]})
    cov = {"states": mc.distinct, "transitions": mc.generated, "traces_validated_against_impl": len(results),
           "trace_events": nev, "programs": len(scn), "distinct_operator_x_operand_kinds": len(ops_seen),
           "samples": [starts[1]["text"], results.get(1, [None])[0]] if 1 in starts else []}
    return core.finish(ctx, "model_checking", cov, [
        "the operator table of pkg/eval/binexprEval.go defines which operand kinds an operator accepts (there is no other reference for the "
        "view language); within it the result values are specified independently in Eval.tla",
        "every variable is read back after all later lets have run, so corruption of an earlier binding is visible; each program is evaluated twice",
        "covered operators: integer arithmetic and comparison, string concatenation and equality, and/not, if-then-else, list concatenation, "
        "set union, count, string membership, where on integer sets, transforms over lists and sets; not yet: flatten, attribute access on model values, calls to other views",
    ])
