"""C15: data-model diagrams (spec/DataModel*.tla)."""
import json

from . import core


def check_c15(ctx):
    quick = ctx.quick()
    core.build_vh(ctx)
    mc = core.model_check(ctx, "DataModel", "MCDataModel.cfg", timeout=1200)
    gen = core.generate(ctx, "FrontendGen", "GenTypes.cfg", num=300 if quick else 4000, depth=400, seed=ctx.seed * 100 + 15, timeout=2400)
    scn = [{"id": i + 1, "decls": g["decls"], "seed": ctx.seed, "mermaid": i % 3 == 0} for i, g in enumerate(gen)]
    # every fourth program gets a second copy of application B under the name BB: an application whose name begins
    # with the name of another one (the diagram of B covers B's types only)
    for s in scn[::4]:
        s["decls"] = with_namesake_prefix(s["decls"], "B", "BB")
    # every third program gets two more applications whose tables refer to each other across the application boundary
    # (key by column, whole table, optional key, two keys to one table): the generator draws such references rarely
    for i, s in enumerate(scn):
        if i % 3 == 1:
            s["decls"] = s["decls"] + cross_application_tables(i // 3)
    # the two applications alone, in every variant, also drawn as one diagram of the whole module: both ends of a key
    # into another application are then in the diagram.  (Whole-module diagrams of the generated programs are not
    # judged: there the bare-name class aliases of tables, the known finding below, show in ever new roles.)
    for v in range(4):
        scn.append({"id": len(scn) + 1, "decls": cross_application_tables(v), "seed": ctx.seed, "mermaid": False, "whole": True})
    events, _ = core.vh_sharded(ctx, "datamodel", scn, timeout=3000)
    prints, nev, _ = core.validate(ctx, "DataModelTrace", "DataModelTrace.cfg", events, chunk=40000)
    begins = {e["t"]: e for e in events if e["e"] == "begin"}
    diags = {e["t"]: e for e in events if e["e"] == "diagram"}
    mermaids = {e["t"]: e for e in events if e["e"] == "mermaid"}
    by_id = {s["id"]: s for s in scn}
    for kind, p in prints:
        t = p["t"]
        b = begins.get(t, {})
        if kind == "VERDICT":
            names = set(p["what"])
        elif kind == "REJECT":
            names = {"NoDiagram:" + str(p["what"])}
        elif kind == "EXTRA":
            # beyond the listed properties: the Mermaid data-model diagram of the whole module
            mm = mermaids.get(t, {})
            core.add_extra(ctx, "mermaid-datamodel/" + "+".join(sorted(p["what"])),
                           "%s; classes %s, links %s, unread lines %s %s; types %s fields %s" %
                           (sorted(p["what"]), json.dumps([c[0] for c in mm.get("classes", [])])[:200], json.dumps(mm.get("edges"))[:200],
                            json.dumps(mm.get("unknown"))[:200], mm.get("msg", ""), json.dumps(b.get("mtypes"))[:300], json.dumps(b.get("mfields"))[:500]))
            continue
        else:
            continue
        if "FieldTypeDiffers" in names:
            # one signature per role of a differing field: owner kind / collection / kind of the declared type
            names.discard("FieldTypeDiffers")
            for role, exm in sorted(_type_diffs(b, diags.get(t)).items()):
                core.add_violation(ctx, "C15/FieldTypeDiffers/" + role,
                                   "application %s: field %s.%s is declared %r but listed as %r" % ((b.get("app"),) + exm),
                                   {"family": "datamodel", "scenario": by_id[t // 10], "app": b.get("app")})
            if not names:
                continue
        cls = _classify(b, diags.get(t))
        if cls and all("relation" in x for x in cls.split(",")) and names <= {"RelationshipMissing", "RelationshipToUndeclaredClass", "RelationshipNotInModel"}:
            # one signature per role of a wrong line (kinds of the two ends, direction, wrapper of the fields, same or
            # other application), so that the known finding lists the roles that fail today and nothing else
            for role in _table_roles(b, diags.get(t)):
                core.add_violation(ctx, "C15/table-relationship/" + role,
                                   "application %s: %s; types=%s fields=%s; diagram edges=%s undeclared=%s" % (
                                       b.get("app"), sorted(names), json.dumps(b.get("mtypes")), json.dumps(b.get("mfields")),
                                       json.dumps(diags.get(t, {}).get("edges")), json.dumps(diags.get(t, {}).get("undeclared")))[:1500],
                                   {"family": "datamodel", "scenario": by_id[t // 10], "app": b.get("app")})
            continue
        else:
            sig = "C15/" + "+".join(sorted(names)) + ("/" + cls if cls else "")
        what = "application %s: %s; types=%s fields=%s; diagram edges=%s undeclared=%s" % (
            b.get("app"), sorted(names), json.dumps(b.get("mtypes")), json.dumps(b.get("mfields")),
            json.dumps(diags.get(t, {}).get("edges")), json.dumps(diags.get(t, {}).get("undeclared")))
        core.add_violation(ctx, sig, what[:1500], {"family": "datamodel", "scenario": by_id[t // 10], "app": b.get("app")})
    graphs = {json.dumps([b["mtypes"], b["mfields"]]) for b in begins.values() if b.get("app") != "*"}
    cov = {"states": mc.distinct, "transitions": mc.generated, "traces_validated_against_impl": len(diags),
           "programs": len(scn), "distinct_type_graphs": len(graphs), "mermaid_data_diagrams_compared": len(mermaids),
           "reference_fields": sum(1 for b in begins.values() for f in b["mfields"] if f[2]),
           "samples": [list(begins.values())[0]] if begins else []}
    return core.finish(ctx, "model_checking", cov, [
        "per-application diagrams generated in project manner (a project endpoint listing one application), class labels %(classname)",
        "drawn kinds: tables, tuples, primitive aliases, enums; unions and aliases of collections or references are neither required nor "
        "forbidden; a reference to a type of another application is neither required nor forbidden in a per-application diagram",
        "field types are compared as text (primitive name or reference as written, inside Set / Sequence / List); multiplicity labels are not compared",
        "whole-module diagrams (no project, one output) are judged for the two applications P and Q with tables keyed into each other only; "
        "whole-module diagrams of the generated programs are not judged (the bare-name class aliases of tables, a known finding, show there in ever new roles)",
    ])


def cross_application_tables(variant):
    """Applications P and Q: tables with plain foreign keys into each other (and one local key)."""
    pos = {"file": "", "line": 0, "col": 0}

    def app(name):
        return {"k": "app", "name": name, "long": "", "tags": [], "attrs": [], "pos": pos}

    def typ(name, kind="relation"):
        return {"pos": pos, "tags": [], "attrs": [], "k": "type", "name": name, "kind": kind}

    def fld(name, p="", ref=(), opt=False, pk=False):
        return {"sh": {"p": p, "ref": list(ref), "size": [], "opt": opt, "wrap": ""}, "pos": pos, "tags": [], "attrs": [],
                "k": "field", "name": name, "pk": pk}

    end = {"k": "end"}
    v = variant % 4
    d = [app("P"),
         typ("K"), fld("id", "int", pk=True), fld("l", ref=("Q", "L", "id")), end]
    if v in (1, 3):
        d += [typ("J"), fld("id", "int", pk=True), fld("k", ref=("", "K", "id")), fld("l1", ref=("Q", "L", "id")),
              fld("l2", ref=("Q", "L", "id"), opt=(v == 3)), end]
    d += [end, app("Q"),
          typ("L"), fld("id", "int", pk=True)]
    if v >= 2:
        d += [fld("k", ref=("P", "K", "id"))]
    d += [end]
    if v == 2:
        d += [typ("N", "tuple"), fld("k", ref=("P", "K")), end]
    d += [end]
    return d


def with_namesake_prefix(decls, app, twin):
    """Appends a copy of every block of application `app`, renamed `twin`."""
    import copy
    opens = ("app", "type", "inplace", "ep", "event", "sub", "rest", "method", "block", "oneof", "choice")
    out, extra, depth, taking = list(decls), [], 0, False
    for d in decls:
        if depth == 0 and d["k"] == "app":
            taking = d.get("name") == app
        if taking:
            c = copy.deepcopy(d)
            if depth == 0 and c["k"] == "app":
                c["name"] = twin
            extra.append(c)
        if d["k"] == "end":
            depth -= 1
        elif d["k"] in opens:
            depth += 1
    return out + extra


def _type_diffs(b, d):
    """Fields whose listed type differs from the declared one, keyed by role."""
    out = {}
    if not b or not d:
        return out
    kinds = {t[0]: t[1] for t in b["mtypes"]}
    apps = {t[0].rsplit(".", 1)[0] for t in b["mtypes"]}
    mf = {(x[0], x[1]): x for x in b["mfields"]}
    for c, n, ty in d.get("fields") or []:
        m = mf.get((c, n))
        if not m or len(m) < 5:
            continue
        want = m[4] if m[3] == "" else "%s <%s>" % (m[3], m[4])
        if want == ty:
            continue
        base = m[4]
        if not m[2]:
            rk = "primitive"
        elif "::" in base:
            rk = "other-application-namespaced"
        elif "." in base and base.rsplit(".", 1)[0] not in {x.rsplit(".", 1)[-1] for x in kinds}:
            rk = "other-application"
        elif "." in base:
            rk = "field-of-local-type"
        else:
            rk = "local-type"
        out.setdefault("%s/%s/%s" % (kinds.get(c, "?"), m[3] or "plain", rk), (c, n, want, ty))
    return out


def _table_roles(b, d):
    """Like _classify, with the wrapper of the referring fields and whether the two ends are of one application."""
    kinds = {t[0]: t[1] for t in b["mtypes"]}
    drawn = {k for k, v in kinds.items() if v in ("tuple", "relation", "enum", "alias")}
    want, opt, got, wraps = {}, {}, {}, {}
    for c, f, tg, wr in [x[:4] for x in b["mfields"]]:
        key = (c, tg.rstrip("?"))
        if key[1] in drawn:
            wraps.setdefault(key, set()).add(wr or "plain")
        if tg.endswith("?"):
            if tg[:-1] in drawn:
                opt[key] = opt.get(key, 0) + 1
        elif tg in drawn:
            want[key] = want.get(key, 0) + 1
    for e in d.get("edges") or []:
        got[(e[0], e[1])] = got.get((e[0], e[1]), 0) + 1
    roles = set()
    for (c, tg) in set(want) | set(got):
        w, g, o = want.get((c, tg), 0), got.get((c, tg), 0), opt.get((c, tg), 0)
        if g < w or g > w + o:
            d_ = "fwd" if tg > c else ("self" if tg == c else "back")
            app = "same-application" if c.split(".")[0] == tg.split(".")[0] else "other-application"
            roles.add("%s/%s->%s/%s/%s/%s" % ("missing" if g < w else "extra", kinds.get(c, "?"), kinds.get(tg, "?"), d_,
                                            "+".join(sorted(wraps.get((c, tg), {"none"}))), app))
    return sorted(roles)


def _classify(b, d):
    """Roles of the relationships that are missing or extra (kinds and direction, not identifiers)."""
    if not b or not d:
        return ""
    kinds = {t[0]: t[1] for t in b["mtypes"]}
    drawn = {k for k, v in kinds.items() if v in ("tuple", "relation", "enum", "alias")}
    want, opt, got = {}, {}, {}
    for c, f, tg in [x[:3] for x in b["mfields"]]:
        if tg.endswith("?"):
            if tg[:-1] in drawn:
                opt[(c, tg[:-1])] = opt.get((c, tg[:-1]), 0) + 1
        elif tg in drawn:
            want[(c, tg)] = want.get((c, tg), 0) + 1
    for e in d.get("edges") or []:
        got[(e[0], e[1])] = got.get((e[0], e[1]), 0) + 1
    shapes = set()
    for (c, tg) in set(want) | set(got):
        w, g, o = want.get((c, tg), 0), got.get((c, tg), 0), opt.get((c, tg), 0)
        if g < w or g > w + o:
            d_ = "fwd" if tg > c else ("self" if tg == c else "back")
            shapes.add("%s%s->%s:%s" % ("missing:" if g < w else "extra:", kinds.get(c, "?"), kinds.get(tg, "?"), d_))
    return ",".join(sorted(shapes))
