"""C09: serialised models (spec/Codec*.tla, spec/StringGen.tla)."""
import json
import os

from . import core, fam_frontend

TEMPLATE = os.path.join(core.ROOT, "harness", "codec_template.sysl")

OPENAPI3 = {
    "openapi": "3.0.0", "info": {"title": "Api", "version": "1"},
    "paths": {"/things/{id}": {"get": {
        "parameters": [{"name": "id", "in": "path", "required": True, "schema": {"type": "string"}}],
        "responses": {"200": {"description": "ok", "content": {"application/json": {"schema": {"$ref": "#/components/schemas/Thing"}}}}}}}},
    "components": {"schemas": {"Thing": {"type": "object", "properties": {"name": {"type": "string"}, "n": {"type": "integer"}}}}},
}
SWAGGER = {
    "swagger": "2.0", "info": {"title": "Api", "version": "1"}, "basePath": "/v1",
    "paths": {"/things": {"get": {"responses": {"200": {"description": "ok", "schema": {"$ref": "#/definitions/Thing"}}}}}},
    "definitions": {"Thing": {"type": "object", "properties": {"name": {"type": "string"}}}},
}


def quote(s):
    # the same escapes as Go's %q for the alphabet of StringGen
    return json.dumps(s, ensure_ascii=False)


def strings(ctx):
    gen = core.generate(ctx, "StringGen", "GenStrings2.cfg" if ctx.quick() else "GenStrings3.cfg", timeout=900)
    out = sorted({g["s"].replace("@", "é") for g in gen})
    return out


def with_strings(decls, strs, k):
    """Replace every attribute value of a generated program by strings of the enumeration; add one to each application."""
    out = []
    for d in decls:
        d = dict(d)
        if d.get("attrs"):
            d["attrs"] = [[a[0], strs[(k + i) % len(strs)]] for i, a in enumerate(d["attrs"])]
            k += len(d["attrs"])
        elif d["k"] == "app":
            d["attrs"] = [["sv", strs[k % len(strs)]]]
            k += 1
        out.append(d)
    return out


def check_c09(ctx):
    quick = ctx.quick()
    core.build_vh(ctx)
    sysl = core.build_sysl(ctx)
    core.model_check(ctx, "Codec", "MCCodec.cfg")
    strs = strings(ctx)
    tmpl = open(TEMPLATE).read()
    scn = []

    def add(**kw):
        kw["id"] = len(scn) + 1
        # every third model is written over the artefact of an earlier, larger model (Prior in Codec.tla)
        kw["over"] = kw["id"] % 3 == 0 and kw.get("kind") != "foreign"
        scn.append(kw)

    # (a) every enumerated string at every attribute position of a model with collectors, mixins, views, events
    for s in strs:
        add(kind="template", text=tmpl.replace('"S1"', quote(s)), s=s)
    # (b) TLC-generated programs with their attribute values drawn from the enumeration
    progs = fam_frontend.programs(ctx, 150 if quick else 1500, seed_off=9)
    for i, p in enumerate(progs):
        add(kind="generated", decls=with_strings(p["decls"], strs, i * 7), seed=ctx.seed)
    # (c) the repository's corpus
    files = fam_frontend.corpus_files()
    for f in files:
        add(kind="corpus", path=f, root=core.repo_dir())
    # (d) the command line (sysl pb --mode .. [--compact] -o ..) instead of the library calls
    tmp = ctx.sub("cli")
    step = 12 if quick else 3
    for s in strs[::step]:
        add(kind="cli-template", text=tmpl.replace('"S1"', quote(s)), s=s, cli=sysl, tmp=tmp)
    for f in files[::(10 if quick else 2)]:
        add(kind="cli-corpus", path=f, root=core.repo_dir(), cli=sysl, tmp=tmp)
    # (e) documents that are not compiled models keep going to the foreign importer whatever their suffix
    add(kind="foreign", foreign=json.dumps(OPENAPI3, indent=1), mode="openapi3")
    add(kind="foreign", foreign=json.dumps(SWAGGER, indent=1), mode="swagger")

    events, _ = core.vh_sharded(ctx, "codec", scn, timeout=3000, resilient=True)
    prints, nev, results = core.validate(ctx, "CodecTrace", "CodecTrace.cfg", events, chunk=20000)
    by_id = {s["id"]: s for s in scn}
    compiled = {e["t"] for e in events if e["e"] == "model"}
    for e in events:
        if e["e"] == "fatal":
            s = by_id[e["t"]]
            core.add_violation(ctx, "C09/driver-died/" + s["kind"], "scenario %d: %s" % (e["t"], str(e)[:400]),
                               {"family": "codec", "scenario": s})
    for kind, p in prints:
        s = by_id[p["t"]]
        if kind == "VERDICT":
            names = sorted(p["what"])
            where = s["path"] if "path" in s else ("string " + json.dumps(s["s"]) if "s" in s else "program")
            sig = "C09/%s/%s" % ("+".join(names), s["path"] if "path" in s else s["kind"])
            detail = [e for e in events if e["t"] == p["t"] and e["e"] in ("encode", "decode", "reimport", "jsonvalid", "foreign")
                      and (not e.get("ok", True) or e["e"] == "foreign")][:3]
            core.add_violation(ctx, sig, "%s (%s): %s %s" % (s["kind"], where, names, json.dumps(detail)[:600]),
                               {"family": "codec", "scenario": s})
        elif kind == "REJECT":
            core.add_violation(ctx, "C09/Rejected:" + str(p["what"]), "scenario %d" % p["t"], {"family": "codec", "scenario": s})
    states = sum(r.distinct for r in results)
    nk = {}
    for s in scn:
        if s["id"] in compiled or s["kind"] == "foreign":
            nk[s["kind"]] = nk.get(s["kind"], 0) + 1
    cov = {"states": max(states, 1), "transitions": max(states, 1), "traces_validated_against_impl": len(scn),
           "models_round_tripped": len(compiled), "by_kind": nk, "attribute_strings": len(strs),
           "encodings_per_model": 5, "decodes": sum(1 for e in events if e["e"] == "decode"),
           "reimports": sum(1 for e in events if e["e"] == "reimport"),
           "artefacts_written_over_an_earlier_one": sum(1 for e in events if e["e"] == "prior"),
           "samples": [strs[:12]]}
    return core.finish(ctx, "model_checking", cov, [
        "model equality is equality of the deterministic binary encoding (all fields; without locations: every SourceContext cleared)",
        "binary output has no compact form; JSON and text each in indented and compact form; through the library (pbutil) for every model and "
        "through the command line (sysl pb) for a sample, where compact JSON additionally drops locations before encoding",
        "attribute strings: every string over {quote, backslash, newline, tab, colon, space, non-ASCII letter, brace, letter} up to length 2 (quick) / 3 "
        "(thorough) plus key-like shapes, written at every attribute position of a template with collectors, mixins, views, events and REST endpoints, "
        "and as the attribute values of TLC-generated programs; a source the compiler rejects contributes nothing",
        "after its five encodings every model compiled in-process is edited in place (a longer name, a new attribute) and written as binary again: the second artefact decodes to the edited model",
        "every third model is written to files that already hold the artefact of an earlier, larger model (the model plus one application): Prior in Codec.tla",
    ])
