"""C18: path confinement of ChrootFs and of imports through it (spec/Chroot*.tla)."""
from . import core

ASSUME = [
    "POSIX path semantics (no volume names); the recording afero.Fs underneath ChrootFs sees every call made on behalf of a specification",
    "segment alphabet {'', '.', '..', 'a', 'b.c', 'd e', 'ab', '..a'} ('ab' continues the root name 'a' as a string, '..a' is an ordinary name that begins with two dots); names up to the stated length, 4 roots of depth 0..3, each name spelled relative and absolute",
    "module driver: the module named on the command line (loader.LoadSyslModule with a root), spelled like the imports and ending in `mod`, `mod.sysl` or `mod.v2`; "
    "the recording file system sits below the loader, so calls made before the loader confines itself to the root are seen too",
    "import driver: one importing file in <root>/p, names containing spaces are not valid import paths and are skipped there; "
    "an import whose resolved path has the shape host.tld/owner/repo/... is a remote import for the reader and is not judged",
]


def check_c18(ctx):
    quick = ctx.quick()
    core.build_vh(ctx)
    mc = core.model_check(ctx, "ChrootMC", "MCChroot4.cfg" if quick else "MCChroot.cfg")
    scn = core.generate(ctx, "ChrootGen", "GenChroot4.cfg" if quick else "GenChroot5.cfg", timeout=1800)
    implen = 3 if quick else 4
    for s in scn:
        s["imports"] = len(s["segs"]) <= implen
    events, _ = core.vh_sharded(ctx, "chroot", scn, timeout=3000)
    # an import whose in-root path reads <host.tld>/<owner>/<repo>/... is a remote import for the reader
    # (golden-retriever's repository pattern), not a local file access: such probes are not judged
    import re
    remote = re.compile(r"^(\w+\.)+\w+(/[\w-]+){2}")
    nremote = len(events)
    def in_root(e):
        # the reader sees the path below the root
        t, r = e.get("target") or [], e.get("root") or []
        return "/".join(t[len(r):] if t[:len(r)] == r else t)
    events = [e for e in events if not (e["e"] == "imp" and (remote.match("/".join(e.get("target") or [])) or remote.match(in_root(e))))]
    nremote -= len(events)
    # trace ids must be unique across shards
    for i, e in enumerate(events):
        e["t"] = i + 1
    prints, nev, _ = core.validate(ctx, "ChrootTrace", "ChrootTrace.cfg", events, chunk=30000)
    by_t = {e["t"]: e for e in events}
    nops = sum(len(e.get("res", [])) for e in events if e["e"] == "op")
    nimp = sum(1 for e in events if e["e"] == "imp")
    nmod = sum(1 for e in events if e["e"] == "mod")
    for kind, p in prints:
        if kind != "VERDICT":
            continue
        e = by_t[p["t"]]
        bad = sorted(p["what"])
        sig = "C18/" + "+".join(bad)
        what = "%s event: root=/%s name=%r (%s): %s" % (e["e"], "/".join(e["root"]), "/".join(e["segs"]),
                                                       "absolute" if e.get("abs") else "relative", bad)
        core.add_violation(ctx, sig, what, {"family": "chroot", "scenario": {"root": e["root"], "segs": e["segs"]},
                                            "event": e})
    cov = {"states": mc.distinct, "transitions": mc.generated,
           "traces_validated_against_impl": len(events), "wrapper_calls_judged": nops, "import_compiles_judged": nimp, "module_arguments_judged": nmod,
           "names_enumerated": len(scn), "exhaustive": True, "import_probes_skipped_as_remote_paths": nremote,
           "samples": [events[0], events[len(events) // 2]] if events else []}
    return core.finish(ctx, "model_checking", cov, ASSUME)
