"""C05 / C06: the import-closure collector (spec/ImportClosure*.tla)."""
import json

from . import core
from .core import log

PROCS = [1, 2, 4, 16]

C05_NAMES = {"ReadOnce", "ClosureExact", "NoDuplicates", "OrderFixed", "MergeOrder", "Apps"}


def _scenarios(ctx, gens, free_every):
    """gens: list of (cfg, num|None, seedoffset)."""
    scn = []
    for cfg, num, off in gens:
        for s in core.generate(ctx, "ImportClosureGen", cfg, num=num, seed=ctx.seed * 1000 + off,
                               timeout=1500):
            s["files"] = sorted(s["imports"].keys())
            s["root"] = "r"
            s["mode"] = "replay"
            s["seed"] = ctx.seed
            s["gen"] = cfg
            # every third graph has part of its files in a remote repository (//host/org/repo/... import spellings)
            s["remote"] = len(scn) % 3 == 2
            # every fourth graph without faults gives its files one base name in directories that differ only in
            # leading dots, case or an underscore (the driver decides; see Twins in importclosure.go)
            s["twins"] = len(scn) % 4 == 1
            scn.append(s)
    out = []
    for i, s in enumerate(scn):
        s = dict(s)
        s["id"] = len(out) + 1
        out.append(s)
        if free_every and i % free_every == 0:
            f = dict(s)
            f["id"] = len(out) + 1
            f["mode"] = "free"
            f["procs"] = PROCS[(i // free_every) % len(PROCS)]
            f.pop("sched", None)
            out.append(f)
    return out


def _judge(ctx, pid, scn, events, prints):
    """Turn TLC's verdict lines into violations with signatures."""
    by_id = {s["id"]: s for s in scn}
    traces = core.split_traces(events)
    ret = {}
    verdict = {}
    reject = {}
    for kind, p in prints:
        if kind == "RET":
            ret[p["t"]] = set(p["what"])
        elif kind == "VERDICT":
            verdict.setdefault(p["t"], set()).update(p["what"])
        elif kind == "REJECT":
            reject[p["t"]] = (p["l"], p["what"])
    stalls = [e for e in events if e["e"] == "stall"]
    judged = 0
    shapes = set()
    for t, s in by_id.items():
        tags = ret.get(t)
        bad = set(verdict.get(t, set()))
        if tags is not None:
            judged += 1
            bad |= tags - {"claimed-deeper"}
        if t in reject:
            bad.add("Rejected:" + str(reject[t][1]))
        elif tags is None:
            bad.add("Incomplete")
        shapes.add(json.dumps([s["imports"], s["fail"], s["maxd"]], sort_keys=True))
        if not bad:
            continue
        deeper = tags is not None and "claimed-deeper" in tags and s["maxd"] > 0
        sig = "%s/%s/%s/%s" % (pid, "depth-limit" if s["maxd"] > 0 else "unlimited",
                               "claimed-deeper" if deeper else "direct", "+".join(sorted(bad)))
        what = "import closure scenario %d (%s mode): properties violated: %s; graph=%s fail=%s maxd=%d" % (
            t, s["mode"], sorted(bad), json.dumps(s["imports"], sort_keys=True),
            json.dumps({k: v for k, v in s["fail"].items() if v != "none"}, sort_keys=True), s["maxd"])
        core.add_violation(ctx, sig, what, {"family": "importclosure", "scenario": s, "trace": traces.get(t, [])})
    return judged, len(shapes), stalls


ASSUME = [
    "the gated reader.Reader and the in-memory file layout stand in for golden-retriever and the OS",
    "goroutines of collectSpecs are identified by (canonical file, depth); goroutines with equal keys are interchangeable",
    "free-running (ungated) traces sample, not enumerate, the Go scheduler",
    "remote-style import spellings (//host/org/repo/path) are exercised with the substituted reader for a third of the graphs; real git retrieval and version suffixes (@v) are not",
]


def check_c05(ctx):
    quick = ctx.quick()
    core.build_vh(ctx)
    mc = [core.model_check(ctx, "ImportClosure", "MCImportClosure.cfg"),
          core.model_check(ctx, "ImportClosure", "MCImportDepth3.cfg")]
    if not quick:
        mc.append(core.model_check(ctx, "ImportClosure", "MCImportDepth.cfg", timeout=1800))
    gens = [("GenImportClosure3.cfg", 1200 if quick else 8000, 1),
            ("GenImportClosure5.cfg", 800 if quick else 6000, 2)]
    if not quick:
        gens.append(("GenImportClosure6.cfg", 3000, 3))
    scn = _scenarios(ctx, gens, free_every=4 if quick else 3)
    events = _run_closures(ctx, "C05", scn)
    prints, nev, _ = core.validate(ctx, "ImportClosureTrace", "ImportClosureTrace.cfg", events)
    judged, shapes, stalls = _judge(ctx, "C05", scn, events, prints)
    if stalls:
        ctx.notes.append("%d replay(s) left the forced schedule (released goroutine did not reach the expected gate)" % len(stalls))
    cov = {"states": sum(r.distinct for r in mc), "transitions": sum(r.generated for r in mc),
           "traces_validated_against_impl": judged, "trace_events": nev,
           "distinct_graphs": shapes,
           "replayed_schedules": sum(1 for s in scn if s["mode"] == "replay"),
           "free_running": sum(1 for s in scn if s["mode"] == "free"),
           "exhaustive": False,
           "samples": [scn[0], scn[-1]] if scn else []}
    return core.finish(ctx, "model_checking", cov, ASSUME)


def _run_closures(ctx, pid, scn):
    """Runs the import-closure driver; a driver process that dies (a panic on a goroutine nobody can recover) is a run
    without a result for the scenario it was on: reported directly, the other scenarios are judged as usual."""
    raw, _ = core.vh_sharded(ctx, "importclosure", scn, timeout=3000, resilient=True)
    by_id = {s["id"]: s for s in scn}
    events = []
    for i, e in enumerate(raw):
        if e["e"] == "start":
            continue
        if e["e"] == "fatal":
            s = by_id.get(e["t"], {})
            kinds = sorted({v for v in s.get("fail", {}).values() if v != "none"})
            core.add_violation(ctx, "%s/driver-died/%s/%s" % (pid, "+".join(kinds) or "no-fault", e.get("site", "unknown")),
                               "import closure scenario %s: the process died: %s at %s; graph=%s fail=%s" %
                               (e["t"], e.get("msg"), e.get("site"), json.dumps(s.get("imports")), json.dumps(s.get("fail"))),
                               {"family": "importclosure", "scenario": s})
            continue
        events.append(e)
    return events


def check_c06(ctx):
    quick = ctx.quick()
    core.build_vh(ctx)
    mc = [core.model_check(ctx, "ImportClosure", "MCImportFaults2.cfg"),
          core.model_check(ctx, "ImportClosure", "MCImportFaultsSafety.cfg" if quick else "MCImportFaults.cfg", timeout=1800)]
    mc.append(core.model_check(ctx, "ImportClosureGen", "MCImportAlias2.cfg" if quick else "MCImportAlias.cfg", timeout=2400))
    gens = [("GenImportFaults3.cfg", None if not quick else 1500, 1),
            ("GenImportFaults4.cfg", 1000 if quick else 10000, 2),
            ("GenImportAlias4.cfg", 500 if quick else 5000, 3)]
    scn = _scenarios(ctx, gens, free_every=4 if quick else 3)
    scn = [s for s in scn if any(v != "none" for v in s["fail"].values())
           or any(a for al in s.get("aliases", {}).values() for a in al)]
    for i, s in enumerate(scn):
        s["id"] = i + 1
    events = _run_closures(ctx, "C06", scn)
    prints, nev, _ = core.validate(ctx, "ImportClosureTrace", "ImportClosureTrace.cfg", events)
    judged, shapes, stalls = _judge(ctx, "C06", scn, events, prints)
    if stalls:
        ctx.notes.append("%d replay(s) left the forced schedule" % len(stalls))
    plans = {json.dumps([s["imports"], s["fail"], s["maxd"], s.get("sched")], sort_keys=True) for s in scn}
    cov = {"evaluations": len(scn), "distinct_nontrivial": len(plans),
           "rule": "TLC-generated (graph, fault assignment, depth limit, release order) tuples with at least one faulty file; "
                   "distinct = different tuple; each is replayed on the real collector with the fault delivered at the "
                   "scheduled step and its trace validated by TLC against ImportClosure.tla",
           "states": sum(r.distinct for r in mc), "transitions": sum(r.generated for r in mc),
           "traces_validated_against_impl": judged, "trace_events": nev, "distinct_fault_plans": shapes,
           "samples": [scn[0], scn[-1]] if scn else []}
    return core.finish(ctx, "fault_enumeration", cov, ASSUME)
