"""C14: integration diagrams (spec/Ints*.tla)."""
import json

from . import core


def check_c14(ctx):
    quick = ctx.quick()
    core.build_vh(ctx)
    mc = core.model_check(ctx, "IntsDiagram", "MCInts.cfg", timeout=2400)
    gen = core.generate(ctx, "IntsGen", "GenInts.cfg", num=1200 if quick else 15000, depth=12, seed=ctx.seed * 100 + 14, timeout=2400)
    scn = []
    for i, g in enumerate(gen):
        scn.append({"id": i + 1, "apps": ["A", "B", "C", "D", "E"], "calls": sorted(g["calls"]), "listed": sorted(g["listed"]),
                    "excl": sorted(g["excl"]), "pass": sorted(g["pass"]), "view": g["view"],
                    "human": sorted(g["human"]), "hid": sorted(g["hid"]),
                    "views": [{"listed": sorted(g["listed2"]), "excl": sorted(set(g["excl2"]) - set(g["listed2"])),
                               "pass": sorted(g["pass2"])}] if i % 2 == 0 else [],
                    "mermaid": i % 3 == 0})
    events, _ = core.vh_sharded(ctx, "ints", scn, timeout=3000, resilient=True)
    prints, nev, _ = core.validate(ctx, "IntsTrace", "IntsTrace.cfg", events, chunk=40000)
    by_id = {s["id"]: s for s in scn}
    evs = core.split_traces(events)
    cyc = 0
    for s in scn:
        if _pass_cycle(s):
            cyc += 1
    nmer = sum(1 for e in events if e["e"] == "mermaid")
    for kind, p in prints:
        if kind == "EXTRA":
            s0 = by_id[p["t"] // 10]
            w = p["what"]
            core.add_extra(ctx, "mermaid-integration/%s/%s" % (w["kind"], "+".join(sorted(w["bad"]))),
                           "calls=%s: %s" % (s0["calls"], [e for e in evs.get(p["t"], []) if e["e"] == "mermaid"][:2]))
            continue
        s = dict(by_id[p["t"] // 10])
        if p["t"] % 10 > 0:
            v = s["views"][p["t"] % 10 - 1]
            s.update(listed=v["listed"], excl=v["excl"], **{"pass": v["pass"]})
            s["second_view"] = True
        if kind == "VERDICT":
            names = sorted(p["what"])
            sig = "C14/" + "+".join(names) + "/" + s["view"] + ("/second-view" if s.get("second_view") else "")
        elif kind == "REJECT":
            sig = "C14/NoDiagram:%s%s" % (p["what"], "/passthrough-cycle" if _pass_cycle(s) else "")
            names = [sig]
        else:
            continue
        what = "%s for calls=%s listed=%s exclude=%s passthrough=%s human=%s hidden-endpoint=%s view=%s; got %s" % (
            names, s["calls"], s["listed"], s["excl"], s["pass"], s["human"], s["hid"], s["view"], json.dumps([e for e in evs.get(p["t"], []) if e["e"] != "begin"])[:500])
        core.add_violation(ctx, sig, what, {"family": "ints", "scenario": s})
    shapes = {json.dumps([s[k] for k in ("calls", "listed", "excl", "pass", "view")]) for s in scn}
    cov = {"states": mc.distinct, "transitions": mc.generated, "traces_validated_against_impl": len(scn),
           "distinct_models": len(shapes), "models_with_passthrough_cycle": cyc, "mermaid_diagrams_judged": nmer,
           "samples": [scn[0], scn[-1]] if scn else []}
    return core.finish(ctx, "model_checking", cov, [
        "one endpoint per application, calls at top level and nested in if / for each / one of / until / group; 5 applications",
        "listed and excluded sets are disjoint; the project application is excluded as the command does when --exclude is empty",
        "the arrows are also read back from the PlantUML text in all three views (endpoint-analysis view: an arrow between endpoint states of two applications counts as an arrow between the applications)",
        "up to one ~human application and one application with a ~hidden endpoint per model (two marks in all)",
    ])


def _pass_cycle(s):
    ps = set(s["pass"])
    g = {}
    for a, t in s["calls"]:
        if a in ps and t in ps:
            g.setdefault(a, set()).add(t)
    seen = set()

    def dfs(n, path):
        if n in path:
            return True
        if n in seen:
            return False
        seen.add(n)
        return any(dfs(m, path | {n}) for m in g.get(n, ()))
    return any(dfs(n, set()) for n in list(g))
