"""setup: prepare the Go harness module, warm the build cache, parse every specification."""
import os
import shutil
import subprocess

from . import core
from .core import log


def run():
    core.prepare_harness_module()
    ctx = core.Ctx("setup", "quick", 1)
    core.build_vh(ctx)
    bad = 0
    d = ctx.sub("sany")
    for fn in sorted(os.listdir(core.SPEC)):
        if fn.endswith(".tla"):
            shutil.copy(os.path.join(core.SPEC, fn), d)
    for fn in sorted(os.listdir(d)):
        p = subprocess.run(["tla-sany", fn], cwd=d, stdout=subprocess.PIPE, stderr=subprocess.STDOUT, text=True)
        if p.returncode != 0 or "*** Errors" in p.stdout or "Fatal" in p.stdout:
            log("[sany] %s FAILED\n%s" % (fn, p.stdout[-1500:]))
            bad += 1
    log("[setup] harness built, %d specification modules parsed, %d failed" %
        (len([f for f in os.listdir(d) if f.endswith('.tla')]), bad))
    shutil.rmtree(ctx.work, ignore_errors=True)
    return 2 if bad else 0
