"""C11, C12: interchange with foreign specifications (spec/Interop*.tla)."""
import json
import re

from . import core

EXT = []
RING = []
AWKWARD = {"type", "my-field", "int", "Upper", "a_b", "X-Hdr", "my-p", "$1x", ".5x"}


def _kind_of_base(b, owner=""):
    if b.startswith("ref:"):
        return "self-ref" if owner and b[4:] == owner.split(".")[0] else "ref"
    return b or "none"


def fact_class(f):
    """Role-based class of an expected fact (identifiers dropped unless they are the awkward ones)."""
    k = f[0]
    if k == "T":
        return "T/" + f[2]
    if k == "A":
        return "A/%s/arr%s" % (f[2], f[3])
    if k == "F":
        c = "F/%s/arr%s/req%s" % (_kind_of_base(f[3], f[1]), f[4], f[5])
        if "." in f[1]:
            c += "/in-inline"
            if f[1].split(".")[-1] in AWKWARD:
                c += "/owner=" + f[1].split(".")[-1]
        if f[2] in AWKWARD:
            c += "/name=" + f[2]
        return c
    if k == "K":
        return "K"
    if k == "V":
        return "V"
    if k == "E":
        return "E/" + f[1].split(" ")[0]
    if k == "P":
        c = "P/%s/%s/arr%s/req%s" % (f[3], _kind_of_base(f[4]), f[5], f[6])
        if f[2] in AWKWARD:
            c += "/name=" + f[2]
        return c
    if k == "R":
        return "R/%s/%s/arr%s" % (f[2], _kind_of_base(f[3]), f[4])
    return k


def sql_context(f, shape):
    """For SQL: how the key / foreign key that is missing was written (the renderer draws inline or table-level clauses)."""
    if shape and f[0] == "A" and isinstance(shape.get(f[1]), str):
        return "/" + shape[f[1]]
    if not shape or f[0] not in ("K", "F") or f[1] not in shape or not isinstance(shape[f[1]], dict):
        return ""
    sh = shape[f[1]]
    table_level = sh["tablepk"] or bool(sh["tablefk"])
    if f[0] == "K":
        return "/inline-key-beside-table-constraint" if sh["inlinepk"] and table_level else ("/inline-key" if sh["inlinepk"] else "/table-key")
    if f[3].startswith("ref:"):
        if f[2] in sh["inlinefk"]:
            return "/inline-references-beside-table-constraint" if table_level else "/inline-references"
        return "/table-foreign-key"
    return ""


def syntax_class(text):
    """Names the construct that makes an emitted specification unparseable (signature only; the verdict is the compiler's)."""
    if re.search(r"\[[^\]\n]*,\s*,", text or ""):
        return "empty-attribute-in-list"
    if re.search(r"=\{[^}\n]*[^A-Za-z0-9_}\n][^}\n]*\}", text or ""):
        return "unescaped-alias-name-in-query"
    found = set()
    for line in (text or "").split("\n"):
        if re.match(r"^\s*!(type|table|alias)\s+[^\s:\[]*[^\w%\s:\[-][^\s:\[]*", line):
            found.add("unescaped-type-name")
        elif re.match(r"^\s+[^\s\w@!#|/~<%'\"-]\S*\s*<:", line):
            found.add("unescaped-field-name")
        elif re.match(r"^\s+%[0-9A-Fa-f]{2}\S*\s*<:", line):
            found.add("field-name-starting-with-an-escape")
    return "+".join(sorted(found)) or "other"


def shared_array_param(doc, f):
    """Is the parameter of fact f an array parameter whose name another operation also uses for an array parameter of another type?"""
    if f[0] != "P" or f[5] != "1":
        return False
    others = {(p["base"]) for e in doc["eps"] for p in e["params"] if p["name"] == f[2] and p["arr"]}
    return len(others) > 1


def norm_msg(msg):
    msg = re.sub(r"\x1b\[[0-9;]*m", "", msg or "")
    msg = msg.strip().splitlines()[0] if msg.strip() else ""
    msg = re.sub(r"^invalid paths: invalid path \S+: invalid operation [A-Z]+: ", "", msg)
    msg = re.sub(r"(source_context|attrs):.*$", "", msg)
    msg = re.sub(r"'[^']*'|\"[^\"]*\"|`[^`]*`", "<q>", msg)
    msg = re.sub(r"\d+", "N", msg)
    return msg[:90]


def gen_docs(ctx, quick):
    field = core.generate(ctx, "InteropGen", "GenInteropField.cfg", timeout=900)
    epa = core.generate(ctx, "InteropGen", "GenInteropEpA.cfg", timeout=900)
    epb = core.generate(ctx, "InteropGen", "GenInteropEpB.cfg", timeout=900)
    pair = core.generate(ctx, "InteropGen", "GenInteropPair.cfg", timeout=900)
    global EXT, RING
    EXT = core.generate(ctx, "InteropGen", "GenInteropExt.cfg", timeout=900)
    RING = core.generate(ctx, "InteropGen", "GenInteropRing.cfg", timeout=900)
    rnd = core.generate(ctx, "InteropGen", "GenInteropRandom.cfg", num=40 if quick else 400, depth=20, seed=ctx.seed * 100 + 11)
    awk = core.generate(ctx, "InteropGen", "GenInteropRandomAwk.cfg", num=20 if quick else 200, depth=20, seed=ctx.seed * 100 + 12)
    return field, epa, epb, pair, rnd, awk


def run(ctx, pid, scn, timeout=6000):
    events, _ = core.vh_sharded(ctx, "interop", scn, timeout=timeout, resilient=True, shards=16)
    import os
    with open(os.path.join(ctx.work, "events.ndjson"), "w") as f:
        for e in events:
            f.write(json.dumps(e) + "\n")
    # the rendered and emitted texts stay in the driver's trace files; TLC only needs the stage outcomes and facts
    slim = []
    for e in events:
        e2 = {k: v for k, v in e.items() if k not in ("text", "shape")}
        slim.append(e2)
    prints, nev, results = core.validate(ctx, "InteropTrace", "InteropTrace.cfg", slim, chunk=6000)
    return events, prints, results


BEYOND_FMTS = ("avro", "proto")   # importers no listed property names: observations, not verdicts


def _report(ctx, s, sig, what, replay):
    if s["fmt"] in BEYOND_FMTS:
        core.add_extra(ctx, "importer/" + sig.split("/", 1)[1], what[:700])
    else:
        core.add_violation(ctx, sig, what, replay)


def judge(ctx, pid, scn, events, prints, family="interop"):
    by_id = {s["id"]: s for s in scn}
    last_text = {}
    stage_msg = {}
    shapes = {}
    for e in events:
        if e["e"] == "stage" and e.get("shape"):
            shapes[e["t"]] = e["shape"]
        if e["e"] == "stage":
            if e.get("text"):
                last_text[(e["t"], e["name"])] = e["text"]
            if not e["ok"]:
                stage_msg[e["t"]] = (e["name"], e.get("msg", ""))
        elif e["e"] == "fatal":
            s = by_id[e["t"]]
            done = [x["name"] for x in events if x["t"] == e["t"] and x["e"] == "stage"]
            sig = "%s/%s/%s/driver-died-after-%s/%s" % (pid, s["dir"], s["fmt"], done[-1] if done else "begin", e.get("site", "unknown"))
            _report(ctx, s, sig, "scenario %d (%s %s): the process died: %s at %s" % (e["t"], s["dir"], s["fmt"], e.get("msg"), e.get("site")),
                               {"family": family, "scenario": s})
    diffs = {}
    for kind, p in prints:
        if kind == "DIFF":
            diffs.setdefault(p["t"], []).append(p["what"])
    for kind, p in prints:
        s = by_id[p["t"]]
        pre = "%s/%s/%s" % (pid, s["dir"], s["fmt"])
        if kind == "REJECT":
            _report(ctx, s, pre + "/Rejected:" + str(p["what"]), "scenario %d" % p["t"], {"family": family, "scenario": s})
            continue
        if kind != "VERDICT":
            continue
        for name in sorted(p["what"]):
            if name in ("Incomplete", "DocumentIncomplete", "RoundTripIncomplete"):
                stage = {"Incomplete": "observe", "DocumentIncomplete": "read", "RoundTripIncomplete": "importback"}[name]
                for d in diffs.get(p["t"], []):
                    if d["stage"] != stage:
                        continue
                    classes = {}
                    for f in d["missing"]:
                        c = fact_class(f) + sql_context(f, shapes.get(p["t"]))
                        if f[0] == "A":
                            kind = next((t["kind"] for t in s["doc"]["types"] if t["name"] == f[1]), "?")
                            c = c.replace("A/", "A/%s/" % kind, 1)
                        if s["fmt"] == "openapi3" and f[0] == "P" and f[4] == "int" and f[5] == "1" and (shapes.get(p["t"]) or {}).get("formats"):
                            c += "/item-format-written"
                        if shared_array_param(s["doc"], f):
                            c += "/array-parameter-name-shared-by-operations"
                        classes.setdefault(c, []).append(f)
                    for c, fs in sorted(classes.items()):
                        what = "scenario %d, %s %s: %s lacks %s (e.g. %s); document %s" % (
                            p["t"], s["dir"], s["fmt"], stage, c, json.dumps(fs[0]), json.dumps(s["doc"])[:700])
                        _report(ctx, s, "%s/%s/%s" % (pre, name, c), what,
                                           {"family": family, "scenario": s, "missing": fs[:5],
                                            "text": (last_text.get((p["t"], "import")) or last_text.get((p["t"], "export")) or "")[:3000]})
            else:
                st, msg = stage_msg.get(p["t"], ("", ""))
                what = "scenario %d, %s %s: %s at stage %s: %s; document %s" % (p["t"], s["dir"], s["fmt"], name, st, (msg or "")[:300], json.dumps(s["doc"])[:700])
                detail = norm_msg(msg)
                if "circular schema reference not handled" in (msg or ""):
                    detail = "kin-openapi-circular-schema-reference"
                elif name == "NotRepeatable":
                    shared = any(shared_array_param(s["doc"], ["P", "", q["name"], "", "", "1"]) for e in s["doc"]["eps"] for q in e["params"] if q["arr"])
                    detail = "array-parameter-name-shared-by-operations" if shared else "plain"
                if name == "OutputDoesNotCompile" and detail != "kin-openapi-circular-schema-reference":
                    detail = syntax_class(last_text.get((p["t"], "import")) or last_text.get((p["t"], "compile")))
                _report(ctx, s, "%s/%s/%s" % (pre, name, detail), what,
                                   {"family": family, "scenario": s, "text": (last_text.get((p["t"], "render")) or last_text.get((p["t"], "compile")) or "")[:3000]})


def check_c11(ctx):
    quick = ctx.quick()
    core.build_vh(ctx)
    core.model_check(ctx, "MCInterop", "MCInterop.cfg")
    field, epa, epb, pair, rnd, awk = gen_docs(ctx, quick)
    tmp = ctx.sub("tmp")
    scn = []

    def add(doc, fmt, enc="", via="", pathlevel=""):
        slow = fmt not in ("swagger", "xsd")
        scn.append({"id": len(scn) + 1, "doc": doc, "dir": "import", "fmt": fmt, "enc": enc, "via": via, "seed": ctx.seed, "tmp": tmp,
                    "noagain": slow and quick and len(scn) % 4 != 0, "pathlevel": pathlevel})

    step = 8 if quick else 1
    # every field shape in every format (the Go importers take every document, the arr.ai ones a slice per run)
    for i, d in enumerate(field):
        add(d["openapi"], "swagger", "yaml" if i % 2 else "json")
        add(d["xsd"], "xsd")
        if i % step == ctx.seed % step:
            add(d["openapi"], "openapi3", "json" if i % 2 else "yaml")
            add(d["sql"], ["spanner", "postgres", "mysql"][i % 3])
    for i, d in enumerate(epa + epb):
        add(d["openapi"], "swagger", "yaml" if i % 2 else "json")
        if i % (step * 3) == ctx.seed % (step * 3):
            add(d["openapi"], "openapi3", "json" if i % 2 else "yaml")
    # operations sharing a path item, with the path parameters on the item and on each operation
    for i, d in enumerate(pair):
        for pl in ("yes", "no"):
            add(d["openapi"], "swagger", "yaml", pathlevel=pl)
        if i % (step * 4) == ctx.seed % (step * 4):
            add(d["openapi"], "openapi3", "yaml", pathlevel="yes")
    # extension chains (only XSD can say "extends")
    for d in EXT:
        add(d["xsd"], "xsd")
    # types that refer to one another in a cycle of two or three
    for d in RING:
        add(d["xsd"], "xsd")
    for i, d in enumerate(rnd + awk):
        add(d["openapi"], "swagger", "yaml")
        add(d["openapi"], "openapi3", "yaml")
        add(d["xsd"], "xsd")
        add(d["sql"], ["spanner", "postgres", "mysql"][i % 3])
        if i % 5 == 0:
            add(d["openapi"], "swagger", "yaml", via="stmt")
            add(d["openapi"], "openapi3", "yaml", via="stmt")
    # beyond the listed properties: the Avro and Protocol Buffers importers, judged by the same facts (records / messages with
    # their fields, enumeration members); both are arr.ai importers (2 s and 6 s per document)
    import re
    ident = re.compile(r"^[A-Za-z_][A-Za-z0-9_]*$")

    def plain_names(doc):
        # both formats restrict names to identifiers: other documents are not well formed there
        return all(ident.match(t["name"]) and all(ident.match(f["name"]) for f in t["fields"]) for t in doc["types"])

    for i, d in enumerate(field):
        if i % (step * 2) == ctx.seed % (step * 2) and plain_names(d["avro"]):
            add(d["avro"], "avro")
        if i % (step * 5) == ctx.seed % (step * 5) and plain_names(d["proto"]):
            add(d["proto"], "proto")
    for i, d in enumerate(rnd + awk):
        if i % 3 == 0 and plain_names(d["avro"]):
            add(d["avro"], "avro")
        if i % 6 == 0 and plain_names(d["proto"]):
            add(d["proto"], "proto")
    events, prints, results = run(ctx, "C11", scn)
    judge(ctx, "C11", scn, events, prints)
    states = sum(r.distinct for r in results)
    per = {}
    for s in scn:
        per[s["fmt"]] = per.get(s["fmt"], 0) + 1
    cov = {"states": max(states, 1), "transitions": max(states, 1), "traces_validated_against_impl": len(scn),
           "documents": {"field_shapes": len(field), "endpoint_shapes": len(epa) + len(epb), "operation_pairs": len(pair), "extension_chains": len(EXT), "random": len(rnd), "random_awkward_names": len(awk)},
           "runs_per_format": per,
           "stages_run": sum(1 for e in events if e["e"] == "stage"),
           "facts_observed": sum(len(e.get("facts", [])) for e in events if e["e"] == "stage"),
           "samples": [json.dumps(scn[0]["doc"])[:400]]}
    return core.finish(ctx, "model_checking", cov, ASSUME + [
        "import direction: formats OpenAPI 3 (arr.ai importer), Swagger 2 (Go importer), XSD (Go importer), SQL DDL in Spanner / Postgres / MySQL "
        "flavour (one arr.ai importer); through importer.Factory + Load, and for a sample through an `import doc.yaml as Foo ~openapi3` statement",
        "the arr.ai importers take seconds per document, so the quick tier gives them a quarter of the exhaustive field/endpoint shapes (rotating with VERIF_SEED); "
        "the thorough tier gives them all",
    ])


ASSUME = [
    "an abstract document is what the formats have in common (InteropFacts.tla): object types with fields (primitive kind, array, required, key, reference, "
    "one level of inline object), enumerations, named arrays and primitives, REST operations with path/query/header parameters, a body and responses; "
    "the expected facts are computed by TLC from the document, the observed facts by the harness projector from the compiled model (or by a generic "
    "reader from the exported document)",
    "a format is only asked for what it can express (Carried): no endpoints for XSD/SQL, keys only for SQL, enumeration members only of an exported document",
    "the renderers of the harness (OpenAPI as JSON/YAML through encoding/json + ghodss/yaml, XSD, SQL, Sysl) are trusted; string keys are always quoted",
]


def check_c12(ctx):
    quick = ctx.quick()
    core.build_vh(ctx)
    core.model_check(ctx, "MCInterop", "MCInterop.cfg")
    field, epa, epb, pair, rnd, awk = gen_docs(ctx, quick)
    tmp = ctx.sub("tmp")
    scn = []

    def add(doc, fmt, enc):
        scn.append({"id": len(scn) + 1, "doc": doc, "dir": "export", "fmt": fmt, "enc": enc, "seed": ctx.seed, "tmp": tmp})

    step = 6 if quick else 1
    for i, d in enumerate(field):
        if any(f["base"] == "inline" or f["name"] in ("int", "my-field", "$1x", ".5x") for t in d["openapi"]["types"] for f in t["fields"]):
            continue   # inline fields are outside the exportable subset; `int`, `my-field`, `$1x` and `.5x` are not field names a Sysl source can spell plainly
        add(d["export"], "swagger", "yaml" if i % 2 else "json")
        if i % step == ctx.seed % step:
            add(d["export"], "openapi3", "json" if i % 2 else "yaml")
    for i, d in enumerate(epa + epb):
        add(d["export"], "swagger", "yaml" if i % 2 else "json")
        if i % (step * 3) == ctx.seed % (step * 3):
            add(d["export"], "openapi3", "json" if i % 2 else "yaml")
    for i, d in enumerate(pair):
        if i % 4 == 0:
            add(d["export"], "swagger", "yaml")
        if i % (step * 4) == ctx.seed % (step * 4):
            add(d["export"], "openapi3", "yaml")
    for i, d in enumerate(rnd):
        add(d["export"], "swagger", "yaml" if i % 2 else "json")
        add(d["export"], "openapi3", "json" if i % 2 else "yaml")
    # a sample also goes through the command (`sysl export`), to an output path that already holds an earlier, longer export
    sysl = core.build_sysl(ctx)
    for s in scn[::(9 if quick else 3)]:
        s["cli"] = sysl
    # beyond the listed properties: the Protocol Buffers exporter (`sysl export -o x.proto`), read generically
    for i, d in enumerate(field):
        if i % 2 == 0 and all(re.match(r"^[A-Za-z_][A-Za-z0-9_]*$", f["name"]) and f["name"] not in ("int", "type")
                              for t in d["proto"]["types"] for f in t["fields"]) \
                and all(t["fields"] for t in d["proto"]["types"] if t["kind"] == "object"):
            scn.append({"id": len(scn) + 1, "doc": d["proto"], "dir": "export", "fmt": "proto", "enc": "", "seed": ctx.seed, "tmp": tmp})
    events, prints, results = run(ctx, "C12", scn)
    judge(ctx, "C12", scn, events, prints)
    states = sum(r.distinct for r in results)
    per = {}
    for s in scn:
        per[s["fmt"] + "/" + s["enc"]] = per.get(s["fmt"] + "/" + s["enc"], 0) + 1
    cov = {"states": max(states, 1), "transitions": max(states, 1), "traces_validated_against_impl": len(scn),
           "documents": {"field_shapes": len(field), "endpoint_shapes": len(epa) + len(epb), "operation_pairs": len(pair), "random": len(rnd)},
           "runs_per_format": per,
           "stages_run": sum(1 for e in events if e["e"] == "stage"),
           "facts_observed": sum(len(e.get("facts", [])) for e in events if e["e"] in ("stage", "unjudged")),
           "samples": [json.dumps(scn[0]["doc"])[:400]]}
    return core.finish(ctx, "model_checking", cov, ASSUME + [
        "export direction: the document is written as a REST-style Sysl application (harness renderer), compiled by the real parser, exported by "
        "exporter.MakeSwaggerExporter / MakeOpenAPI3Exporter as yaml and json, validated with the kin-openapi loader (Swagger 2 after openapi2conv), read "
        "by a generic reader, and imported back with the real importer",
        "the exportable subset (ExportDoc): no inline objects, scalar query and header parameters",
    ])
