--------------------------- MODULE DbCatalogTrace ---------------------------
(* The DDL emitted by the real generator, statement by statement, run on the  *)
(* catalog machine of DbCatalog.tla: a creation script must reach             *)
(* Expected(version); creation script of the old version followed by the      *)
(* delta must leave every table of the new version as Expected(new) says;     *)
(* the delta between identical versions must not change the catalog.          *)
EXTENDS DbCatalog, Json
VARIABLES l, versions, created
Trace == ndJsonDeserialize("trace.ndjson")
Ev == Trace[l]
Is(e) == l <= Len(Trace) /\ Trace[l].e = e
Say(kind, t, what) == PrintT(<<kind, ToJson([t |-> t, l |-> l, what |-> what])>>)

\* statements carry only the fields of their kind: give the machine total records
Total(st) == [k \in {"e", "t", "c", "ty", "t2", "c2", "cols", "pk", "fks", "name", "kind", "s"} |->
                IF k \in DOMAIN st THEN st[k] ELSE IF k \in {"cols", "pk", "fks"} THEN <<>> ELSE ""]
Stmts(ev) == [i \in DOMAIN ev.stmts |-> Total(ev.stmts[i])]

Begin == Is("begin") /\ versions' = Ev.versions /\ created' = <<>> /\ l' = l + 1

Script ==
  /\ Is("script")
  /\ LET sts == Stmts(Ev)
     IN IF Ev.which = "create"
          THEN LET s == Run(S0, sts)
                   bad == s.bad \cup Diff(s.cat, versions[Ev.va])
                          \cup (IF DOMAIN s.cat \subseteq {versions[Ev.va][i].name : i \in DOMAIN versions[Ev.va]} THEN {} ELSE {"TableNotInModel"})
               IN /\ (bad # {} => Say("VERDICT", Ev.t, [script |-> "create", a |-> Ev.va, b |-> Ev.vb, bad |-> bad]))
                  /\ created' = created @@ (Ev.va :> sts)
          ELSE LET base == Run(S0, created[Ev.va])
                   s == Run([base EXCEPT !.bad = {}], sts)
                   bad == IF Ev.va = Ev.vb
                            THEN (IF s.cat = base.cat /\ s.seqs = base.seqs THEN {} ELSE {"IdentityDeltaChangesCatalog"}) \cup s.bad
                            ELSE s.bad \cup Diff(s.cat, versions[Ev.vb])
               IN /\ (bad # {} => Say("VERDICT", Ev.t, [script |-> IF Ev.va = Ev.vb THEN "identity" ELSE "delta", a |-> Ev.va, b |-> Ev.vb, bad |-> bad]))
                  /\ created' = created
  /\ l' = l + 1 /\ UNCHANGED versions

End == Is("end") /\ l' = l + 1 /\ UNCHANGED <<versions, created>>
Normal == Begin \/ Script \/ End
\* scriptfail (panic, unbounded recursion, timeout): no action
Skip == /\ l <= Len(Trace) /\ ~ENABLED Normal /\ Say("REJECT", Ev.t, Ev.e) /\ l' = l + 1 /\ UNCHANGED <<versions, created>>
TraceInit == l = 1 /\ versions = <<>> /\ created = <<>>
TraceSpec == TraceInit /\ [][Normal \/ Skip]_<<l, versions, created>>
Consumed == TLCSet(1, l)
AllConsumed == TLCGet(1) = Len(Trace) + 1
=============================================================================
