--------------------------- MODULE ImportClosureGen ---------------------------
(* Scenario generator for ImportClosure: the graph, the fault plan and the    *)
(* depth limit are chosen by setup steps, then the collector runs; at Finish  *)
(* the behaviour (inputs + schedule of gate releases) is printed as JSON.     *)
(* Used with BFS (all behaviours of small constants) and with -simulate.      *)
EXTENDS ImportClosure, Json, SequencesExt

CONSTANT AliasSet   \* names an import statement may give (`import f as X'); {""} = never

FileSeq == SetToSeq(Files)   \* the files in some fixed order (setup order)

VARIABLES hist,     \* schedule so far: sequence of [a, f, d]
          setup     \* number of files whose import list / fault has been chosen; Len+1 = run phase

gvars == <<vars, hist, setup>>

GenInit ==
  /\ InitWith([f \in Files |-> <<>>], [f \in Files |-> "none"], 0)
  /\ hist = <<>>
  /\ setup = 0

FaultOK(f, k) == \/ k = "none"
                 \/ f = Root /\ k \in {"read", "importsyntax", "body"}
                 \/ f # Root

Setup ==
  /\ setup <= Len(FileSeq)
  /\ IF setup = 0
       THEN /\ \E d \in Depths : maxd' = d
            /\ UNCHANGED <<imports, aliases, fail>>
       ELSE LET f == FileSeq[setup] IN
            /\ \E il \in ImportLists, k \in {"none"} \cup FaultKinds :
                 /\ FaultOK(f, k)
                 /\ imports' = [imports EXCEPT ![f] = il]
                 /\ fail' = [fail EXCEPT ![f] = k]
                 /\ \E al \in [DOMAIN il -> AliasSet] : aliases' = [aliases EXCEPT ![f] = al]
            /\ UNCHANGED maxd
  /\ setup' = setup + 1
  /\ UNCHANGED <<retrieved, gs, reads, outcome, hist>>

Running == setup = Len(FileSeq) + 1

Step(a, g) == hist' = Append(hist, [a |-> a, f |-> gs[g].file, d |-> IF a = "read" THEN -1 ELSE gs[g].depth])

GenNext ==
  \/ Setup
  \/ /\ Running
     /\ \/ \E g \in DOMAIN gs : Enter(g) /\ Step("enter", g)
        \/ \E g \in DOMAIN gs : (ReadOK(g) \/ ReadFail(g)) /\ Step("read", g)
        \/ /\ Finish
           /\ PrintT(<<"SCN", ToJson([imports |-> imports, aliases |-> aliases, fail |-> fail, maxd |-> maxd,
                                      sched |-> hist, expect |-> outcome'.kind])>>)
           /\ UNCHANGED hist
     /\ UNCHANGED setup

GenSpec == GenInit /\ [][GenNext]_gvars
=============================================================================
