------------------------------ MODULE ChrootGen ------------------------------
(* Enumerates every (root, name) of the bounded space and prints it with the  *)
(* resolution the specification expects.                                      *)
EXTENDS Chroot, Json
GenRoots == {<<>>, <<"a">>, <<"a", "b.c">>, <<"r", "a", "d e">>}
GenNext == \/ \E s \in Segs : Extend(s)
           \/ /\ PrintT(<<"SCN", ToJson([root |-> root, segs |-> name, resolved |-> stack,
                                         allowed |-> Allowed(root, name)])>>)
              /\ UNCHANGED vars
GenSpec == Init /\ [][GenNext]_vars
=============================================================================
