------------------------------ MODULE LexerGen ------------------------------
(* Enumerates line skeletons (kinds and leading whitespace incl. tabs) for   *)
(* the conformance check of the real lexer against Lexer.tla.                *)
EXTENDS Lexer, Json

Leads == {<<>>, <<" ">>, <<" ", " ">>, <<"\t">>, <<" ", "\t">>, <<"\t", " ">>, <<" ", " ", " ", " ">>,
          <<" ", " ", " ", " ", " ">>, <<"\t", "\t">>, <<" ", " ", "\t">>}
GenLines == {[kind |-> "code", lead |-> l] : l \in Leads}
            \cup {[kind |-> "blank", lead |-> l] : l \in {<<>>, <<" ", " ", " ">>}}
            \cup {[kind |-> "comment", lead |-> l] : l \in {<<>>, <<" ", "\t">>}}

\* a specification starts in column 0: the first code line carries no indentation
FirstCodeOK(ln) == (ln.kind = "code" /\ \A i \in DOMAIN text : text[i].kind # "code") => ln.lead = <<>>
GenNext == \/ /\ Len(text) < MaxLines /\ \E ln \in GenLines : FirstCodeOK(ln) /\ text' = Append(text, ln)
           \/ /\ text # <<>> /\ PrintT(<<"SCN", ToJson([lines |-> text])>>) /\ UNCHANGED text
GenSpec == Init /\ [][GenNext]_vars
=============================================================================
