SPECIFICATION TraceSpec
CONSTANTS
  Docs = {}
  Formats = {}
CONSTRAINT Consumed
POSTCONDITION AllConsumed
CHECK_DEADLOCK FALSE
