SPECIFICATION SpecFaithful
CONSTANTS
  Docs <- MCDocs
  Formats <- MCFormats
INVARIANTS NeverFlagged StageInRange DocsWellFormed FactsSanity
CHECK_DEADLOCK FALSE
