SPECIFICATION GenSpec
CONSTANTS
  MaxDecls = 45
  Sample = TRUE
  WithPlans = TRUE
  BlockBudget = 9
  MinDecls = 38
  MaxNest = 5
  TypesOnly = FALSE
  CallsOnly = FALSE
  Rich = TRUE
  Inplace = TRUE
  Collectors = TRUE
CHECK_DEADLOCK FALSE
