\* C06 design check (quick): every digraph on 3 files with <= 1 import per file... x every fault assignment
SPECIFICATION Spec
CONSTANTS
  Files = {"r", "a", "b"}
  Root = "r"
  Depths = {0}
  MaxImports = 1
  FaultKinds = {"read", "importsyntax", "body", "foreign", "compiled"}
INVARIANTS TypeOK ReadOnce ReadOnlyClaimed AlwaysClean
PROPERTY Terminates
CHECK_DEADLOCK FALSE
