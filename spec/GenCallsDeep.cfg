SPECIFICATION GenSpec
CONSTANTS
  MaxDecls = 40
  Sample = TRUE
  WithPlans = FALSE
  BlockBudget = 16
  MinDecls = 14
  MaxNest = 8
  TypesOnly = FALSE
  CallsOnly = TRUE
  Rich = TRUE
  Inplace = FALSE
  Collectors = FALSE
CHECK_DEADLOCK FALSE
