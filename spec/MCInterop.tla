------------------------------ MODULE MCInterop ------------------------------
(* Design-level check of the stage machine on three hand-written documents: a carrier that reports exactly  *)
(* the expected facts is never flagged, stages come in order, and the restricted documents are well formed. *)
EXTENDS Interop
F(n, b, a, r, k) == [name |-> n, base |-> b, arr |-> a, req |-> r, key |-> k, sub |-> <<>>]
Obj(n, fs, base) == [name |-> n, kind |-> "object", fields |-> fs, base |-> base, vals |-> <<>>]
NoBody == [base |-> "", arr |-> FALSE, req |-> FALSE]
D1 == [types |-> <<Obj("Err", <<F("code", "int", FALSE, TRUE, TRUE)>>, "")>>, eps |-> <<>>]
D2 == [types |-> <<Obj("Err", <<F("code", "int", FALSE, TRUE, TRUE)>>, ""),
                   Obj("Thing", <<F("id", "int", FALSE, TRUE, TRUE), F("kids", "ref:Thing", TRUE, FALSE, FALSE),
                                  [name |-> "in", base |-> "inline", arr |-> FALSE, req |-> FALSE, key |-> FALSE, sub |-> <<F("x", "string", FALSE, TRUE, FALSE)>>]>>, "Err"),
                   [name |-> "Color", kind |-> "enum", fields |-> <<>>, base |-> "string", vals |-> <<[name |-> "RED", num |-> 1]>>],
                   [name |-> "Names", kind |-> "array", fields |-> <<>>, base |-> "string", vals |-> <<>>]>>,
       eps |-> <<[method |-> "GET", path |-> "/things/{id}", pparams |-> <<[name |-> "id", base |-> "int"]>>,
                  params |-> <<[name |-> "q", loc |-> "query", base |-> "string", arr |-> TRUE, req |-> FALSE]>>,
                  body |-> NoBody, resps |-> <<[code |-> "200", base |-> "ref:Thing", arr |-> TRUE], [code |-> "204", base |-> "", arr |-> FALSE]>>],
                 [method |-> "POST", path |-> "/things/{id}", pparams |-> <<[name |-> "id", base |-> "int"]>>, params |-> <<>>,
                  body |-> [base |-> "ref:Thing", arr |-> FALSE, req |-> TRUE], resps |-> <<[code |-> "201", base |-> "ref:Thing", arr |-> FALSE]>>]>>]
D3 == NoDoc
MCDocs == {D1, D2, D3}
MCFormats == {"openapi3", "swagger", "xsd", "spanner", "postgres"}
DocsWellFormed == \A d \in MCDocs : WellFormed(d) /\ WellFormed(XsdDoc(d)) /\ WellFormed(SqlDoc(d)) /\ WellFormed(ExportDoc(d)) /\ WellFormed(AvroDoc(d)) /\ WellFormed(ProtoDoc(d))
\* the derived type carries the fields of the type it extends; inline fields are carried with their owner's path
FactsSanity == /\ <<"F", "Thing", "code", "int", "0", "1">> \in Facts(D2)
               /\ <<"F", "Thing.in", "x", "string", "0", "1">> \in Facts(D2)
               /\ <<"P", "POST /things/{id}", "", "body", "ref:Thing", "0", "-">> \in Facts(D2)
               /\ <<"K", "Thing", "id">> \in Expected("spanner", D2) /\ <<"K", "Thing", "id">> \notin Expected("openapi3", D2)
               /\ \A f \in Expected("xsd", D2) : f[1] \in {"T", "F", "A"}
               /\ <<"A", "Names", "string", "1">> \in Facts(D2) /\ ~\E f \in Facts(D2) : f[1] = "T" /\ f[2] = "Names"
               /\ <<"V", "Color", "RED">> \in ExpectedRead("openapi3", D2) \ Expected("openapi3", D2)
               /\ Facts(SqlDoc(D2)) \subseteq {f \in Facts(D2) : f[1] \in {"T", "F", "K"}} \cup {<<"F", "Thing", "kids", "ref:Thing", "0", "0">>}
=============================================================================
