SPECIFICATION GenSpec
CONSTANTS
  Files = {"r", "a", "b"}
  Root = "r"
  Depths = {0, 2}
  MaxImports = 2
  AliasSet = {""}
  FaultKinds = {}
CHECK_DEADLOCK FALSE
