SPECIFICATION GenSpec
CONSTANTS
  Files = {"r", "a", "b", "c"}
  Root = "r"
  Depths = {0, 3}
  MaxImports = 2
  AliasSet = {""}
  FaultKinds = {"read", "importsyntax", "body", "foreign", "compiled"}
CHECK_DEADLOCK FALSE
