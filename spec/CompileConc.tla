----------------------------- MODULE CompileConc -----------------------------
(***************************************************************************)
(* Process-global lexer state (pkg/grammar/lexer_impl.go): the indentation *)
(* state of a lexer lives in a global map keyed by the lexer's address.    *)
(* A parse allocates a lexer at some free address, creates its state on    *)
(* first use (get-or-create), deletes it when the parse ends, and the      *)
(* address becomes free again only after that (garbage collection).        *)
(* Safety: two live parses never share a key; a new lexer never finds      *)
(* state left behind by an earlier one; at quiescence the map is empty.    *)
(***************************************************************************)
EXTENDS Integers, FiniteSets, TLC

CONSTANTS Procs, Addrs, DeleteAtEnd   \* DeleteAtEnd = FALSE models the mutant that never deletes

VARIABLES pc,      \* process -> "idle" | "alloc" | "lexing" | "ended"
          addr,    \* process -> address of its lexer (or "none")
          lexstate,\* set of addresses that have an entry in the global map
          owner,   \* address -> process whose state the entry holds
          stale    \* processes that found an entry they did not create
vars == <<pc, addr, lexstate, owner, stale>>

Init == /\ pc = [p \in Procs |-> "idle"] /\ addr = [p \in Procs |-> "none"]
        /\ lexstate = {} /\ owner = [a \in Addrs |-> "none"] /\ stale = {}

InUse == {addr[p] : p \in {q \in Procs : pc[q] \in {"alloc", "lexing", "ended"}}}

NewLexer(p) == /\ pc[p] = "idle"
               /\ \E a \in Addrs \ InUse : addr' = [addr EXCEPT ![p] = a]
               /\ pc' = [pc EXCEPT ![p] = "alloc"]
               /\ UNCHANGED <<lexstate, owner, stale>>

\* get-or-create on the first token
FirstUse(p) == /\ pc[p] = "alloc"
               /\ IF addr[p] \in lexstate
                    THEN stale' = stale \cup {p} /\ UNCHANGED <<lexstate, owner>>
                    ELSE lexstate' = lexstate \cup {addr[p]} /\ owner' = [owner EXCEPT ![addr[p]] = p] /\ UNCHANGED stale
               /\ pc' = [pc EXCEPT ![p] = "lexing"]
               /\ UNCHANGED addr

End(p) == /\ pc[p] = "lexing"
          /\ IF DeleteAtEnd THEN lexstate' = lexstate \ {addr[p]} ELSE UNCHANGED lexstate
          /\ pc' = [pc EXCEPT ![p] = "ended"]
          /\ UNCHANGED <<addr, owner, stale>>

\* the lexer object is collected: its address may be reused
Release(p) == /\ pc[p] = "ended"
              /\ pc' = [pc EXCEPT ![p] = "idle"] /\ addr' = [addr EXCEPT ![p] = "none"]
              /\ UNCHANGED <<lexstate, owner, stale>>

Next == \E p \in Procs : NewLexer(p) \/ FirstUse(p) \/ End(p) \/ Release(p)
Spec == Init /\ [][Next]_vars

NoSharedKey == \A p, q \in Procs : (p # q /\ pc[p] \in {"alloc", "lexing"} /\ pc[q] \in {"alloc", "lexing"}) => addr[p] # addr[q]
NeverStale == stale = {}
EmptyAtQuiescence == (\A p \in Procs : pc[p] \in {"idle", "ended"}) => lexstate = {}
=============================================================================
