---------------------------- MODULE FrontendTrace ----------------------------
(* Judges what the real compiler produced for a rendered program against    *)
(* Frontend.tla: the declaration events are replayed through Step, then the *)
(* projected model (state), the recorded locations (locs) and the layout    *)
(* variants (variant) are compared with what the specification expects.     *)
EXTENDS Frontend, Json

VARIABLES st, l, bad
tvars == <<st, l, bad>>

Trace == ndJsonDeserialize("trace.ndjson")
Ev == Trace[l]
Is(e) == l <= Len(Trace) /\ Trace[l].e = e

Say(kind, t, what) == PrintT(<<kind, ToJson([t |-> t, l |-> l, what |-> what])>>)

Init == st = EmptyState /\ l = 1 /\ bad = {}

Begin == /\ Is("begin")
         /\ st' = EmptyState /\ bad' = {} /\ l' = l + 1

\* defaults for optional declaration fields
Norm(d) == [k \in DOMAIN d \cup {"tags", "attrs", "pos", "long", "params", "q", "pk", "text", "arr", "val", "lines"} |->
              IF k \in DOMAIN d THEN d[k]
              ELSE IF k \in {"tags", "attrs", "params", "q", "arr", "lines"} THEN <<>>
              ELSE IF k = "pos" THEN [file |-> "", line |-> 0, col |-> 0]
              ELSE IF k = "pk" THEN FALSE ELSE ""]

NormP(ps) == [i \in DOMAIN ps |-> [n |-> ps[i].n, sh |-> ps[i].sh,
                                   tags |-> IF "tags" \in DOMAIN ps[i] THEN ps[i].tags ELSE <<>>]]
NormD(d) == LET n == Norm(d) IN [n EXCEPT !.params = NormP(n.params), !.q = NormP(n.q)]

Decl == /\ Is("decl")
        /\ LET d == NormD(Ev.d) IN
           IF Enabled(st, d)
             THEN st' = Step(st, d) /\ bad' = bad
             ELSE st' = st /\ bad' = bad \cup {"IllFormedProgram"}
        /\ l' = l + 1

Tup(s) == s   \* JSON arrays of strings are sequences already
FactSet(fs) == {fs[i] : i \in DOMAIN fs}

Some(S) == IF S = {} THEN <<>> ELSE CHOOSE x \in S : TRUE

\* C02: the compiled model says exactly what the text declares
State ==
  /\ Is("state")
  /\ LET got == FactSet(Ev.facts)
         want == FinalModel(st)
         missing == want \ got
         spurious == got \ want
         other == {f \in got : f[1] = "other"}
     IN /\ (missing # {} \/ spurious # {}) =>
             Say("DIFF", Ev.t, [missing |-> missing, spurious |-> spurious])
        /\ bad' = bad \cup {"Missing:" \o f[1] : f \in missing} \cup {"Spurious:" \o f[1] : f \in spurious}
  /\ st' = st /\ l' = l + 1

\* C08: every location-bearing element the specification tracks records, per declaration and in
\* declaration order, the file and the zero-based position of its first character
Tracked == {"app", "type", "field", "ep", "stmt"}
\* annotations written as statements of an application (`@note = ...`); attributes written in brackets are not tracked
TrackedAnnos == {"note"}
Locs ==
  /\ Is("locs")
  /\ LET got == {f \in FactSet(Ev.facts) : f[1] = "loc" /\ (f[2] \in Tracked \/ (f[2] = "app.attr" /\ f[4] \in TrackedAnnos))}
         ebs == {f \in FactSet(Ev.facts) : f[1] = "loc.endbeforestart"}
         want == LocFacts(st)
         missing == want \ got
         spurious == got \ want
     IN /\ (missing # {} \/ spurious # {}) =>
             Say("LOCDIFF", Ev.t, [missing |-> missing, spurious |-> spurious])
        /\ bad' = bad \cup {"Loc:" \o f[2] : f \in missing \cup spurious}
                      \cup (IF ebs # {} THEN {"LocEndBeforeStart"} ELSE {})
  /\ st' = st /\ l' = l + 1

\* C03: every layout of the same declarations is accepted and compiles to the same model
Variant ==
  /\ Is("variant")
  /\ LET baseok == IF "baseaccepted" \in DOMAIN Ev THEN Ev.baseaccepted ELSE TRUE
     IN bad' = bad \cup (IF "panic" \in DOMAIN Ev THEN {"LayoutCrash"} ELSE {})
                   \cup (IF baseok /\ ~Ev.accepted THEN {"LayoutRejected"} ELSE {})
                   \cup (IF ~baseok /\ Ev.accepted THEN {"LayoutAccepted"} ELSE {})
                   \cup (IF baseok /\ Ev.accepted /\ Ev.digest # Ev.base THEN {"LayoutChangesModel"} ELSE {})
  /\ st' = st /\ l' = l + 1

\* beyond the listed properties: the model printed back as Sysl text (pkg/printer, the "reverse parser" behind the import of
\* compiled models as text) and compiled again says what the declarations say (no verdict; kinds of facts only)
Reprint ==
  /\ Is("reprint")
  /\ LET got == FactSet(Ev.facts)
         want == FinalModel(st)
         kinds == {"missing:" \o f[1] : f \in want \ got} \cup {"spurious:" \o f[1] : f \in got \ want}
     IN IF ~Ev.ok THEN Say("EXTRA", Ev.t, [reprint |-> {"PrintedTextDoesNotCompile"}, example |-> <<>>])
        ELSE (kinds # {}) => Say("EXTRA", Ev.t, [reprint |-> kinds, example |-> Some((want \ got) \cup (got \ want))])
  /\ st' = st /\ bad' = bad /\ l' = l + 1

\* beyond the listed properties: the linter's warnings about calls are exactly the dangling calls (no verdict)
Lint ==
  /\ Is("lint")
  /\ LET got == FactSet(Ev.warnings)
         want == LintWant(st)
     IN (got # want) => Say("EXTRA", Ev.t, [missing |-> want \ got, spurious |-> got \ want])
  /\ st' = st /\ bad' = bad /\ l' = l + 1

Ret ==
  /\ Is("ret")
  /\ LET b == bad \cup (IF Ev.ok THEN {} ELSE {"Rejected"}) \cup (IF st.scope # <<>> THEN {"IllFormedProgram"} ELSE {})
     IN /\ b # {} => Say("VERDICT", Ev.t, b)
        /\ bad' = {}
  /\ st' = st /\ l' = l + 1

Normal == Begin \/ Decl \/ State \/ Locs \/ Variant \/ Lint \/ Reprint \/ Ret

Skip == /\ l <= Len(Trace) /\ ~ENABLED Normal
        /\ Say("REJECT", Ev.t, Ev.e)
        /\ l' = Trace[Ev.b].nx /\ st' = EmptyState /\ bad' = {}

Next == Normal \/ Skip
TraceSpec == Init /\ [][Next]_tvars
Consumed == TLCSet(1, l)
AllConsumed == TLCGet(1) = Len(Trace) + 1
=============================================================================
