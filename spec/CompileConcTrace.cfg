SPECIFICATION TraceSpec
CONSTANTS
  Keys = {}
  Digests = {}
CONSTRAINT Consumed
POSTCONDITION AllConsumed
CHECK_DEADLOCK FALSE
