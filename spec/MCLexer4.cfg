SPECIFICATION Spec
CONSTANTS
  MaxLines = 4
  MaxWidth = 6
INVARIANTS ScaleInvariant TabInvariant BlankInvariant CommentInvariant Balanced
CHECK_DEADLOCK FALSE
