------------------------- MODULE ImportClosureTrace -------------------------
(* Trace validation for ImportClosure: replays events recorded from the real *)
(* collector (hooks under the mutex, gated reader, return value) through the *)
(* specification's actions.  Many traces are concatenated; `begin' resets.   *)
EXTENDS ImportClosure, Json

VARIABLES l      \* next line of Trace to consume

Trace == ndJsonDeserialize("trace.ndjson")

tvars == <<vars, l>>

Ev == Trace[l]
Is(e) == l <= Len(Trace) /\ Trace[l].e = e

Field(rec, k, dflt) == IF k \in DOMAIN rec THEN rec[k] ELSE dflt

Say(kind, t, what) == PrintT(<<kind, ToJson([t |-> t, l |-> l, what |-> what])>>)

TraceInit ==
  /\ l = 1
  /\ InitWith([f \in Files |-> <<>>], [f \in Files |-> "none"], 0)

Begin ==
  /\ Is("begin")
  /\ (outcome.kind = "none" /\ l > 1) => Say("VERDICT", Trace[l - 1].t, {"Incomplete"})
  /\ imports' = [f \in Files |-> Field(Ev.imports, f, <<>>)]
  /\ aliases' = [f \in Files |-> IF "aliases" \in DOMAIN Ev /\ f \in DOMAIN Ev.aliases THEN Ev.aliases[f]
                                  ELSE [i \in DOMAIN Field(Ev.imports, f, <<>>) |-> ""]]
  /\ fail' = [f \in Files |-> Field(Ev.fail, f, "none")]
  /\ maxd' = Ev.maxd
  /\ retrieved' = Retrieved0 /\ gs' = Gs0 /\ reads' = Reads0 /\ outcome' = Outcome0
  /\ l' = l + 1

Pick(pc, f, d) == {g \in DOMAIN gs : gs[g].pc = pc /\ gs[g].file = f /\ (d = -1 \/ gs[g].depth = d)}

EvClaimed == Is("claimed") /\ \E g \in Pick("start", Ev.f, Ev.d) : Claim(g) /\ l' = l + 1
EvDup     == Is("dup")     /\ \E g \in Pick("start", Ev.f, Ev.d) : Dup(g) /\ l' = l + 1
EvCut     == Is("cut")     /\ \E g \in Pick("start", Ev.f, Ev.d) : Cut(g) /\ l' = l + 1
EvRead    == Is("read")    /\ \E g \in Pick("reading", Ev.f, -1) :
                                 /\ IF Ev.ok THEN ReadOK(g) ELSE ReadFail(g)
                                 /\ l' = l + 1

Observed == [kind     |-> IF Ev.ok THEN "model" ELSE "error",
             files    |-> Ev.processed,
             culprits |-> {Ev.names[i] : i \in DOMAIN Ev.names}]

\* the return value is checked twice: it must be an outcome the specification
\* allows in this state, and it must satisfy the properties themselves
EvRet ==
  /\ Is("ret") /\ outcome.kind = "none" /\ Done(1)
  /\ outcome' = Observed
  /\ LET o == Observed
         allowed == \E x \in FinishOutcomes :
                       /\ x.kind = o.kind /\ x.files = o.files /\ x.culprits \subseteq o.culprits
         apps == {"App_" \o f : f \in Range(o.files)} \cup (IF o.files = <<>> THEN {} ELSE {"Shared"})
         bad == (IF allowed THEN {} ELSE {"NotASpecBehaviour"})
                \cup (IF Ev.ok /\ Ev.log # Ev.processed THEN {"MergeOrder"} ELSE {})
                \cup (IF Ev.ok /\ {Ev.apps[i] : i \in DOMAIN Ev.apps} # apps THEN {"Apps"} ELSE {})
                \cup (IF ~Ev.ok /\ Ev.hasmodel THEN {"NoPartialModel"} ELSE {})
                \cup (IF ClaimedDeeper THEN {"claimed-deeper"} ELSE {})
     IN Say("RET", Ev.t, bad)
  /\ UNCHANGED <<imports, aliases, fail, maxd, retrieved, gs, reads>>
  /\ l' = l + 1

Normal == Begin \/ EvClaimed \/ EvDup \/ EvCut \/ EvRead \/ EvRet

\* an event no action explains: report it and resume at the next trace
Skip ==
  /\ l <= Len(Trace) /\ ~ENABLED Normal
  /\ Say("REJECT", Ev.t, Ev.e)
  /\ l' = Trace[Ev.b].nx
  /\ outcome' = [kind |-> "skipped", files |-> <<>>, culprits |-> {}]
  /\ UNCHANGED <<imports, aliases, fail, maxd, retrieved, gs, reads>>

TraceNext == Normal \/ Skip

TraceSpec == TraceInit /\ [][TraceNext]_tvars

\* evaluated in every state: prints the property verdict after each return
JudgeInv == (l > 1 /\ l - 1 <= Len(Trace) /\ Trace[l - 1].e = "ret" /\ outcome.kind # "skipped" /\ Violated # {})
              => Say("VERDICT", Trace[l - 1].t, Violated)

Consumed == TLCSet(1, l)    \* constraint: remember how far the trace was consumed

AllConsumed == TLCGet(1) = Len(Trace) + 1
=============================================================================
