SPECIFICATION Spec
CONSTANTS
  Segs = {"", ".", "..", "a", "b.c", "d e", "ab", "..a"}
  MaxLen = 5
  RootSet <- MCRoots
INVARIANTS Incremental Canonical Idempotent Confined NoDotDotIsSafe
PROPERTIES DotIsNeutral UpUndoesDown
CHECK_DEADLOCK FALSE
