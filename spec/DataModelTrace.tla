---------------------------- MODULE DataModelTrace ----------------------------
EXTENDS DataModel, Json
VARIABLES l, scn
Trace == ndJsonDeserialize("trace.ndjson")
Ev == Trace[l]
Is(e) == l <= Len(Trace) /\ Trace[l].e = e
Say(kind, t, what) == PrintT(<<kind, ToJson([t |-> t, l |-> l, what |-> what])>>)
Begin == Is("begin") /\ scn' = Ev /\ l' = l + 1 /\ UNCHANGED <<types, fields>>
Diagram ==
  /\ Is("diagram")
  /\ LET bad == (IF Ev.present THEN Judge(scn.mtypes, scn.mfields, Ev.classes, Ev.fields, Ev.edges, Ev.undeclared)
                 ELSE IF WantClasses(scn.mtypes) = {} THEN {} ELSE {"NoDiagramForApplication"})
                \cup (IF Ev.present /\ Ev.unknown # <<>> THEN {"UnreadableLine"} ELSE {})
     IN bad # {} => Say("VERDICT", Ev.t, bad)
  /\ l' = l + 1 /\ UNCHANGED <<scn, types, fields>>
\* beyond C15: the Mermaid diagram of the whole module (the begin event before it carries every application's types)
Mermaid ==
  /\ Is("mermaid")
  /\ LET bad == (IF Ev.present THEN MermaidDataJudge(scn.mtypes, scn.mfields, Ev.classes, Ev.fields, Ev.edges) ELSE {"MermaidNoDiagram"})
                \cup (IF Ev.present /\ Ev.unknown # <<>> THEN {"MermaidLineIsNoStatement"} ELSE {})
     IN bad # {} => Say("EXTRA", Ev.t, bad)
  /\ l' = l + 1 /\ UNCHANGED <<scn, types, fields>>
Normal == Begin \/ Diagram \/ Mermaid
Skip == /\ l <= Len(Trace) /\ ~ENABLED Normal /\ Say("REJECT", Ev.t, Ev.e) /\ l' = l + 1 /\ UNCHANGED <<scn, types, fields>>
TraceInit == l = 1 /\ scn = <<>> /\ types = <<>> /\ fields = <<>>
TraceSpec == TraceInit /\ [][Normal \/ Skip]_<<l, scn, types, fields>>
Consumed == TLCSet(1, l)
AllConsumed == TLCGet(1) = Len(Trace) + 1
=============================================================================
