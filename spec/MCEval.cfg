SPECIFICATION Spec
CONSTANTS
  MaxLets = 2
  Focus = "all"
  Sample = FALSE
INVARIANT Deterministic
PROPERTY Pure
CHECK_DEADLOCK FALSE
