-------------------------------- MODULE Relmod --------------------------------
(***************************************************************************)
(* The relational form handed to transforms (pkg/arrai/relmod): a schema   *)
(* is a set of rows; each row is a tuple of strings                        *)
(*   <<relation, key..., payload>>.                                        *)
(* Lossless image: the rows are exactly the census of the compiled model   *)
(* (one row per application, mixin, endpoint, statement with its position  *)
(* path, type, table key, field (and its declared length / precision),    *)
(* enum item, alias, event, annotation and                                 *)
(* tag); statement position paths are distinct within an endpoint; the     *)
(* relations are the same every time.                                      *)
(***************************************************************************)
EXTENDS Integers, Sequences, FiniteSets, TLC

Range(s) == {s[i] : i \in DOMAIN s}

\* relations compared row for row (others are reported in the evidence only)
Compared == {"app", "app.long", "mixin", "ep", "event", "ep.rest", "stmt", "type", "table", "field", "field.constraint", "enum", "alias", "param",
             "app.tag", "type.tag", "field.tag", "ep.tag", "app.anno", "type.anno", "field.anno", "ep.anno"}

\* the payload of a return statement is parsed by relmod into status and type; the census states
\* status and type for the simple payload shapes and only counts the others ("*")
Wild(census) == {<<r[2], r[3], r[4]>> : r \in {x \in Range(census) : x[1] = "stmt" /\ x[5] = "ret" /\ x[6] = "*"}}
NormW(r, wild) == IF r[1] = "stmt" /\ r[5] = "ret" /\ <<r[2], r[3], r[4]>> \in wild
                  THEN <<r[1], r[2], r[3], r[4], r[5], "*">> ELSE r

StmtKeys(rows) == [i \in {j \in DOMAIN rows : rows[j][1] = "stmt"} |-> <<rows[i][2], rows[i][3], rows[i][4]>>]

Judge(census, rows, again) ==
  LET wild == Wild(census)
      want == {NormW(r, wild) : r \in {x \in Range(census) : x[1] \in Compared}}
      got == {NormW(r, wild) : r \in {x \in Range(rows) : x[1] \in Compared}}
      sidx == {i \in DOMAIN rows : rows[i][1] = "stmt"}
      dup == \E i, j \in sidx : i # j /\ rows[i][2] = rows[j][2] /\ rows[i][3] = rows[j][3] /\ rows[i][4] = rows[j][4]
  IN [missing |-> want \ got, spurious |-> got \ want,
      bad |-> (IF want \ got # {} THEN {"RowMissing:" \o r[1] : r \in want \ got} ELSE {})
              \cup (IF got \ want # {} THEN {"RowNotInModel:" \o r[1] : r \in got \ want} ELSE {})
              \cup (IF dup THEN {"StatementPathsNotDistinct"} ELSE {})
              \cup (IF again THEN {} ELSE {"DiffersSecondTime"})]
=============================================================================
