\* C06 design check: every digraph on 3 files (import lists <= 2) x every fault assignment, every interleaving
SPECIFICATION Spec
CONSTANTS
  Files = {"r", "a", "b"}
  Root = "r"
  Depths = {0}
  MaxImports = 2
  FaultKinds = {"read", "importsyntax", "body", "foreign", "compiled"}
INVARIANTS TypeOK ReadOnce ReadOnlyClaimed AlwaysClean
PROPERTY Terminates
CHECK_DEADLOCK FALSE
