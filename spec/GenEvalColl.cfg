SPECIFICATION Spec
CONSTANTS
  MaxLets = 10
  Focus = "collections"
  Sample = TRUE
CHECK_DEADLOCK FALSE
