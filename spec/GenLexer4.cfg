SPECIFICATION GenSpec
CONSTANTS
  MaxLines = 4
  MaxWidth = 6
CHECK_DEADLOCK FALSE
