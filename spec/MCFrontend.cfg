\* exhaustive over all programs of <= 7 declarations on the small alphabet
SPECIFICATION GenSpec
CONSTANTS
  MaxDecls = 7
  Sample = FALSE
  Rich = FALSE
INVARIANTS ScopeWellFormed ReplayAgrees MergeIndependent
CHECK_DEADLOCK FALSE
