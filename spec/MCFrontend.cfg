\* exhaustive over all programs of <= 7 declarations on the small alphabet
SPECIFICATION GenSpec
CONSTANTS
  MaxDecls = 5
  Sample = FALSE
  WithPlans = FALSE
  BlockBudget = 1000
  MinDecls = 0
  MaxNest = 5
  TypesOnly = FALSE
  CallsOnly = FALSE
  Rich = FALSE
  Inplace = TRUE
  Collectors = TRUE
INVARIANTS ScopeWellFormed ReplayAgrees MergeIndependent
CHECK_DEADLOCK FALSE
