---------------------------- MODULE ImportClosure ----------------------------
(***************************************************************************)
(* The import-closure collector of the Sysl compiler                       *)
(* (pkg/parse/parse.go: Parser.Parse, collectSpecs, flattenSpecs,          *)
(* parseSpecs).                                                            *)
(*                                                                         *)
(* One goroutine per import statement.  Each goroutine                     *)
(*   Enter   : depth test, then under the mutex: look the canonical file   *)
(*             index up in the shared map and either leave (dup) or claim  *)
(*             it (linearisation point, hook verifClaim);                  *)
(*   Read    : the claimer reads the file through reader.Reader (no lock   *)
(*             held), extracts and parses the import lines and spawns one  *)
(*             goroutine per import at depth+1 (errgroup);                 *)
(*   (join)  : waits for its children; the first child error wins.         *)
(* When the root goroutine is done the retrieved map is flattened          *)
(* depth-first into the list of files to parse (each index once), foreign  *)
(* files are converted in parallel, all files are walked in list order by  *)
(* one listener.                                                           *)
(*                                                                         *)
(* Properties C05 (ReadOnce, ClosureExact, OrderFixed, termination) and    *)
(* C06 (FailureFails, CulpritNamed, NoPartialModel).                       *)
(***************************************************************************)
EXTENDS Integers, Sequences, FiniteSets, TLC

CONSTANTS Files,      \* canonical files
          Root,       \* the root file
          Depths,     \* import-depth limits Init may choose (0 = unlimited)
          MaxImports, \* maximal number of import statements per file (Init)
          FaultKinds  \* fault kinds Init may assign: subset of AllFaultKinds

\* read: the reader fails; importsyntax: an import statement that does not parse; body: a syntax error below the
\* imports; foreign: a specification in another format that cannot be converted; compiled: a compiled model
\* (.pb, .textpb, .pb.json) that cannot be decoded
AllFaultKinds == {"read", "importsyntax", "body", "foreign", "compiled"}

VARIABLES
  imports,   \* [Files -> Seq(Files)]: import statements of each file in text order
  aliases,   \* [Files -> Seq(STRING)]: the `as <name>' of each import statement ("" = none), same length
  fail,      \* [Files -> {"none"} \cup FaultKinds]
  maxd,      \* depth limit of this compile (0 = unlimited)
  retrieved, \* [Files -> [claimed : BOOLEAN, depth : Int, read : BOOLEAN]]   the shared map
  gs,        \* Seq([file, depth, parent, pc, err])                           the goroutines
  reads,     \* [Files -> Nat] number of reader calls per canonical file
  outcome    \* [kind : {"none","model","error"}, files : Seq(Files), culprits : SUBSET Files]

vars == <<imports, aliases, fail, maxd, retrieved, gs, reads, outcome>>

Range(s) == {s[i] : i \in DOMAIN s}

-----------------------------------------------------------------------------
(* Graph helpers: all of them depend on the text only, never on a schedule *)

\* a file whose content cannot yield import statements contributes no edges
Edges(f) == IF fail[f] \in {"read", "importsyntax", "foreign", "compiled"} THEN <<>> ELSE imports[f]

RECURSIVE Within(_, _)
\* files at distance <= n from the root
Within(n, acc) ==
  IF n = 0 THEN acc
  ELSE LET nxt == acc \cup UNION {Range(Edges(f)) : f \in acc}
       IN IF nxt = acc THEN acc ELSE Within(n - 1, nxt)

Reachable == Within(Cardinality(Files), {Root})

\* the files a compile with limit d must include: exactly those nearer than d
Near(d) == IF d = 0 THEN Reachable ELSE Within(d - 1, {Root})

RECURSIVE DistFrom(_, _, _)
DistFrom(f, n, acc) == IF f \in acc THEN n
                       ELSE IF n > Cardinality(Files) THEN -1
                       ELSE DistFrom(f, n + 1, acc \cup UNION {Range(Edges(g)) : g \in acc})
Dist(f) == DistFrom(f, 0, {Root})

RECURSIVE Visit(_, _, _, _), VisitList(_, _, _, _)
\* depth-first pre-order from f over kids, restricted to `inc', each file once
Visit(acc, f, inc, kids) ==
  IF f \notin inc \/ f \in Range(acc) THEN acc
  ELSE VisitList(Append(acc, f), kids[f], inc, kids)
VisitList(acc, l, inc, kids) ==
  IF l = <<>> THEN acc
  ELSE VisitList(Visit(acc, Head(l), inc, kids), Tail(l), inc, kids)

\* the order fixed by the text alone
PreOrder(d) == Visit(<<>>, Root, Near(d), [f \in Files |-> Edges(f)])

-----------------------------------------------------------------------------
ImportLists == UNION {[1..n -> Files] : n \in 0..MaxImports}

Retrieved0 == [f \in Files |-> [claimed |-> FALSE, depth |-> -1, read |-> FALSE, as |-> ""]]
Gs0        == << [file |-> Root, depth |-> 0, parent |-> 0, pc |-> "start", err |-> {}, as |-> ""] >>
Reads0     == [f \in Files |-> 0]
Outcome0   == [kind |-> "none", files |-> <<>>, culprits |-> {}]

InitWith(imps, fl, d) ==
  /\ imports = imps
  /\ aliases = [f \in Files |-> [i \in DOMAIN imps[f] |-> ""]]
  /\ fail = fl
  /\ maxd = d
  /\ retrieved = Retrieved0
  /\ gs = Gs0
  /\ reads = Reads0
  /\ outcome = Outcome0

Init ==
  \E imps \in [Files -> ImportLists], fl \in [Files -> {"none"} \cup FaultKinds], d \in Depths :
    /\ fl[Root] \in {"none", "read", "importsyntax", "body"}
    /\ InitWith(imps, fl, d)

Kids(g) == {k \in DOMAIN gs : gs[k].parent = g}

RECURSIVE Done(_)
Done(g) == \/ gs[g].pc = "done"
           \/ gs[g].pc = "spawned" /\ \A k \in Kids(g) : Done(k)

RECURSIVE Errs(_)
\* culprit files named by the errors that reach goroutine g
Errs(g) == gs[g].err \cup UNION {Errs(k) : k \in Kids(g)}

SetPc(g, pc) == gs' = [gs EXCEPT ![g].pc = pc]

\* --- the mutex section -----------------------------------------------------
IsCut(g)  == maxd > 0 /\ gs[g].depth >= maxd
IsDup(g)  == ~IsCut(g) /\ retrieved[gs[g].file].claimed
IsClaim(g) == ~IsCut(g) /\ ~retrieved[gs[g].file].claimed

Cut(g) == /\ gs[g].pc = "start" /\ IsCut(g)
          /\ SetPc(g, "done")
          /\ UNCHANGED <<imports, aliases, fail, maxd, retrieved, reads, outcome>>

\* a file already claimed: nothing to do, unless this import names the file's application differently
\* from the import that claimed it (an error naming the file)
Dup(g) == /\ gs[g].pc = "start" /\ IsDup(g)
          /\ IF retrieved[gs[g].file].as = gs[g].as THEN SetPc(g, "done")
             ELSE gs' = [gs EXCEPT ![g].pc = "done", ![g].err = {gs[g].file}]
          /\ UNCHANGED <<imports, aliases, fail, maxd, retrieved, reads, outcome>>

Claim(g) == /\ gs[g].pc = "start" /\ IsClaim(g)
            /\ retrieved' = [retrieved EXCEPT ![gs[g].file] =
                               [claimed |-> TRUE, depth |-> gs[g].depth, read |-> FALSE, as |-> gs[g].as]]
            /\ SetPc(g, "reading")
            /\ UNCHANGED <<imports, aliases, fail, maxd, reads, outcome>>

Enter(g) == Cut(g) \/ Dup(g) \/ Claim(g)

\* --- the read, outside the lock --------------------------------------------
ReadFail(g) ==
  LET f == gs[g].file IN
  /\ gs[g].pc = "reading" /\ fail[f] = "read"
  /\ reads' = [reads EXCEPT ![f] = @ + 1]
  /\ gs' = [gs EXCEPT ![g].pc = "done", ![g].err = {f}]
  /\ UNCHANGED <<imports, aliases, fail, maxd, retrieved, outcome>>

ReadOK(g) ==
  LET f == gs[g].file IN
  /\ gs[g].pc = "reading" /\ fail[f] # "read"
  /\ reads' = [reads EXCEPT ![f] = @ + 1]
  /\ IF fail[f] = "importsyntax"
       THEN /\ gs' = [gs EXCEPT ![g].pc = "done", ![g].err = {f}]
            /\ UNCHANGED retrieved
       ELSE /\ retrieved' = [retrieved EXCEPT ![f].read = TRUE]
            /\ LET kids == [i \in 1..Len(Edges(f)) |->
                              [file |-> Edges(f)[i], depth |-> gs[g].depth + 1,
                               parent |-> g, pc |-> "start", err |-> {}, as |-> aliases[f][i]]]
               IN gs' = [gs EXCEPT ![g].pc = IF kids = <<>> THEN "done" ELSE "spawned"] \o kids
  /\ UNCHANGED <<imports, aliases, fail, maxd, outcome>>

\* --- after the root goroutine has joined -----------------------------------
Claimed == {f \in Files : retrieved[f].claimed}
KidsRead == [f \in Files |-> IF retrieved[f].read THEN Edges(f) ELSE <<>>]
Flat == Visit(<<>>, Root, Claimed, KidsRead)          \* flattenSpecs

FirstIn(seq, S) == LET I == {i \in DOMAIN seq : seq[i] \in S} IN
                   IF I = {} THEN {} ELSE {seq[CHOOSE i \in I : \A j \in I : i <= j]}

\* what the compile may return once the root goroutine has joined
FinishOutcomes ==
  IF Errs(1) # {}
    THEN \* errgroup: one of the errors, decided by timing
         {[kind |-> "error", files |-> <<>>, culprits |-> {c}] : c \in Errs(1)}
    ELSE LET fl == Flat
             foreign == {f \in Range(fl) : fail[f] = "foreign"}
             \* a compiled model is decoded with the conversions, but its failure is only looked at by the sequential walk
             body    == {f \in Range(fl) : fail[f] \in {"body", "compiled"}}
         IN IF foreign # {}      \* parallel conversion: any failing one may be reported
              THEN {[kind |-> "error", files |-> <<>>, culprits |-> {c}] : c \in foreign}
            ELSE IF body # {}    \* sequential walk: the first bad file in list order
              THEN {[kind |-> "error", files |-> <<>>, culprits |-> FirstIn(fl, body)]}
            ELSE {[kind |-> "model", files |-> fl, culprits |-> {}]}

Finish ==
  /\ outcome.kind = "none" /\ Done(1)
  /\ outcome' \in FinishOutcomes
  /\ UNCHANGED <<imports, aliases, fail, maxd, retrieved, gs, reads>>

Next == \/ \E g \in DOMAIN gs : Enter(g) \/ ReadOK(g) \/ ReadFail(g)
        \/ Finish

Spec == Init /\ [][Next]_vars /\ WF_vars(Next)

-----------------------------------------------------------------------------
(* Properties *)

TypeOK == /\ \A g \in DOMAIN gs : gs[g].pc \in {"start", "reading", "spawned", "done"}
          /\ outcome.kind \in {"none", "model", "error"}

\* C05: every file is fetched at most once however many paths reach it
ReadOnce == \A f \in Files : reads[f] <= 1

\* only a claimer reads
ReadOnlyClaimed == \A f \in Files : reads[f] > 0 => retrieved[f].claimed

Finished == outcome.kind # "none"

\* names under which a file is imported by the import statements that are followed (the root is
\* compiled under no name); more than one name is a conflict the compile must report
NamesOf(f) == (IF f = Root THEN {""} ELSE {}) \cup
              {aliases[p][i] : <<p, i>> \in {<<q, j>> \in Near(maxd) \X (1..8) :
                                  j \in DOMAIN Edges(q) /\ Edges(q)[j] = f}}
Conflicts == IF maxd # 0 THEN {} ELSE {f \in Reachable : Cardinality(NamesOf(f)) > 1}

\* files with a fault that the compile must see
FaultsInScope == {f \in Near(maxd) : fail[f] # "none"} \cup Conflicts

\* C05: exactly the files nearer than the limit (all reachable ones without a limit)
ClosureExact == outcome.kind = "model" => Range(outcome.files) = Near(maxd)
\* C05: each file contributes once
NoDuplicates == outcome.kind = "model" =>
                  \A i, j \in DOMAIN outcome.files : outcome.files[i] = outcome.files[j] => i = j
\* C05: combined in the order fixed by the text
OrderFixed == outcome.kind = "model" => outcome.files = PreOrder(maxd)
\* C06: a fault anywhere in the closure fails the compile ...
FailureFails == (Finished /\ FaultsInScope # {}) => outcome.kind = "error"
\* ... and a fault-free closure compiles
SuccessSucceeds == (Finished /\ FaultsInScope = {}) => outcome.kind = "model"
\* C06: the reported error names a file that really failed
CulpritNamed == outcome.kind = "error" => \E c \in outcome.culprits : fail[c] # "none" \/ c \in Conflicts
\* C06: no model next to an error
NoPartialModel == outcome.kind = "error" => outcome.files = <<>>

\* the names of the properties violated in the current (finished) state
Violated ==
  (IF ReadOnce THEN {} ELSE {"ReadOnce"}) \cup
  (IF ClosureExact THEN {} ELSE {"ClosureExact"}) \cup
  (IF NoDuplicates THEN {} ELSE {"NoDuplicates"}) \cup
  (IF ClosureExact /\ ~OrderFixed THEN {"OrderFixed"} ELSE {}) \cup
  (IF FailureFails THEN {} ELSE {"FailureFails"}) \cup
  (IF SuccessSucceeds THEN {} ELSE {"SuccessSucceeds"}) \cup
  (IF CulpritNamed THEN {} ELSE {"CulpritNamed"}) \cup
  (IF NoPartialModel THEN {} ELSE {"NoPartialModel"})

\* C05/C06: cycles, self imports and failures all end (no hang)
Terminates == <>Finished

\* the condition under which the as-is depth rule differs from the intended one:
\* some file was claimed through a path longer than its distance
ClaimedDeeper == \E f \in Files : retrieved[f].claimed /\ retrieved[f].depth > Dist(f)

\* Design-level statement of the deviation (checked by TLC on the depth-limited
\* configuration): the collector as written is exact whenever no file was first
\* claimed through a longer path than its distance from the root.
ExactUnlessClaimedDeeper == (Finished /\ ~ClaimedDeeper) => Violated = {}
AlwaysClean == Finished => Violated = {}

=============================================================================
