SPECIFICATION Spec
CONSTANTS
  Apps = {"A", "B", "C"}
  MaxMarked = 1
INVARIANTS Sound Complete
PROPERTY Terminates
CHECK_DEADLOCK FALSE
