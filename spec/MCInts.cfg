SPECIFICATION Spec
CONSTANT Apps = {"A", "B", "C"}
INVARIANTS Sound Complete
PROPERTY Terminates
CHECK_DEADLOCK FALSE
