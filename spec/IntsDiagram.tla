----------------------------- MODULE IntsDiagram -----------------------------
(***************************************************************************)
(* Integration diagrams (pkg/integrationdiagram/ints_builder.go): which    *)
(* call arrows are drawn for a project view that lists some applications,  *)
(* excludes some and treats some as pass-through.                          *)
(*                                                                         *)
(* The builder runs three passes:                                          *)
(*   direct   : every call of a listed application whose target is not     *)
(*              excluded is drawn; a pass-through target is walked: its    *)
(*              own calls are drawn too, recursively (each application is  *)
(*              walked once, so pass-through cycles end);                  *)
(*   callers  : every call into a listed application from an application   *)
(*              that is not excluded is drawn;                             *)
(*   indirect : every call between applications collected so far is drawn. *)
(* Sound: an arrow is a call of the model and touches no excluded          *)
(* application.  Complete: every call of a listed application to another,  *)
(* non-excluded application is drawn.                                      *)
(***************************************************************************)
EXTENDS Integers, Sequences, FiniteSets, TLC

CONSTANT Apps

VARIABLES calls,    \* SUBSET (Apps \X Apps): call statements (source, target)
          listed, excl, pass,
          final,    \* applications collected so far
          arrows,   \* arrows drawn so far
          todo,     \* pass-through applications still to be walked
          walked,   \* pass-through applications already walked
          phase
vars == <<calls, listed, excl, pass, final, arrows, todo, walked, phase>>

Init == /\ calls \in SUBSET (Apps \X Apps)
        /\ listed \in SUBSET Apps /\ excl \in SUBSET Apps /\ pass \in SUBSET Apps
        /\ listed \cap excl = {}
        /\ final = listed /\ arrows = {} /\ todo = {} /\ walked = {} /\ phase = "direct"

\* draw the calls of application a whose target is not excluded; pass-through targets are queued
Expand(a) ==
  LET out == {c \in calls : c[1] = a /\ c[2] \notin excl} IN
  /\ arrows' = arrows \cup out
  /\ final' = final \cup {c[2] : c \in out}
  /\ todo' = (todo \cup ({c[2] : c \in out} \cap pass)) \ (walked \cup {a})

Direct == /\ phase = "direct"
          /\ LET out == {c \in calls : c[1] \in listed /\ c[2] \notin excl} IN
             /\ arrows' = arrows \cup out
             /\ final' = final \cup {c[2] : c \in out}
             /\ todo' = {c[2] : c \in out} \cap pass
          /\ phase' = "walk"
          /\ UNCHANGED <<calls, listed, excl, pass, walked>>

Walk == /\ phase = "walk" /\ todo # {}
        /\ \E a \in todo : Expand(a) /\ walked' = walked \cup {a}
        /\ UNCHANGED <<calls, listed, excl, pass, phase>>

Callers == /\ phase = "walk" /\ todo = {}
           /\ LET inc == {c \in calls : c[2] \in listed /\ c[1] \notin excl} IN
              /\ arrows' = arrows \cup inc
              /\ final' = final \cup {c[1] : c \in inc}
           /\ phase' = "indirect"
           /\ UNCHANGED <<calls, listed, excl, pass, todo, walked>>

Indirect == /\ phase = "indirect"
            /\ arrows' = arrows \cup {c \in calls : c[1] \in final /\ c[2] \in final}
            /\ phase' = "done"
            /\ UNCHANGED <<calls, listed, excl, pass, final, todo, walked>>

Next == Direct \/ Walk \/ Callers \/ Indirect
Spec == Init /\ [][Next]_vars /\ WF_vars(Next)

\* --- properties, stated on any set of arrows ---------------------------------
SoundA(ar, cs, ex) == \A a \in ar : a \in cs /\ a[1] \notin ex /\ a[2] \notin ex
CompleteA(ar, cs, ls, ex) == \A c \in cs : (c[1] \in ls /\ c[2] # c[1] /\ c[2] \notin ex) => c \in ar

\* --- the Mermaid generator of the same diagram kind (pkg/mermaid/integrationdiagram) ---------
\* It has no views: the full diagram draws every calling pair of the model once (the project application included);
\* the diagram of one application draws the calling pairs of every application that one reaches.
RECURSIVE ReachFrom(_, _, _)
ReachFrom(cs, S, n) == IF n = 0 THEN S ELSE ReachFrom(cs, S \cup {c[2] : c \in {d \in cs : d[1] \in S}}, n - 1)
MermaidFull(cs) == cs
MermaidOf(cs, a) == {c \in cs : c[1] \in ReachFrom(cs, {a}, Cardinality(cs) + 1)}

Sound == SoundA(arrows, calls, excl)
Complete == phase = "done" => CompleteA(arrows, calls, listed, excl)
\* pass-through cycles end
Terminates == <>(phase = "done")
=============================================================================
