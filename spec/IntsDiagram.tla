----------------------------- MODULE IntsDiagram -----------------------------
(***************************************************************************)
(* Integration diagrams (pkg/integrationdiagram/ints_builder.go): which    *)
(* call arrows are drawn for a project view that lists some applications,  *)
(* excludes some and treats some as pass-through.                          *)
(*                                                                         *)
(* The builder runs three passes:                                          *)
(*   direct   : every call of a listed application whose target is not     *)
(*              excluded is drawn; a pass-through target is walked: its    *)
(*              own calls are drawn too, recursively (each application is  *)
(*              walked once, so pass-through cycles end);                  *)
(*   callers  : every call into a listed application from an application   *)
(*              that is not excluded is drawn;                             *)
(*   indirect : every call between applications collected so far is drawn. *)
(* An application tagged ~human is never a seed and never a target; a call *)
(* to an endpoint tagged ~hidden is not drawn (its target application is   *)
(* still collected).                                                       *)
(* Sound: an arrow is a call of the model, touches no excluded application *)
(* and targets neither a human actor nor a hidden endpoint.  Complete:     *)
(* every call of a listed, non-human application to another application    *)
(* that is not excluded, human or hidden is drawn.                         *)
(***************************************************************************)
EXTENDS Integers, Sequences, FiniteSets, TLC

CONSTANTS Apps, MaxMarked    \* MaxMarked bounds |human| + |hid| in the model-checked configuration

VARIABLES calls,    \* SUBSET (Apps \X Apps): call statements (source, target)
          listed, excl, pass,
          human,    \* applications tagged ~human
          hid,      \* applications whose (only) endpoint is tagged ~hidden
          final,    \* applications collected so far
          arrows,   \* arrows drawn so far
          todo,     \* pass-through applications still to be walked
          walked,   \* pass-through applications already walked
          phase
vars == <<calls, listed, excl, pass, human, hid, final, arrows, todo, walked, phase>>

Init == /\ calls \in SUBSET (Apps \X Apps)
        /\ listed \in SUBSET Apps /\ excl \in SUBSET Apps /\ pass \in SUBSET Apps
        /\ listed \cap excl = {}
        /\ human \in SUBSET Apps /\ hid \in SUBSET Apps /\ Cardinality(human) + Cardinality(hid) <= MaxMarked
        /\ final = listed \ human /\ arrows = {} /\ todo = {} /\ walked = {} /\ phase = "direct"

\* a call is drawn only if its target is no human actor and its target endpoint is not hidden
Drawable(c) == c[2] \notin human /\ c[2] \notin hid

\* draw the calls of application a whose target is not excluded; pass-through targets are queued
Expand(a) ==
  LET out == {c \in calls : c[1] = a /\ c[2] \notin excl /\ c[2] \notin human} IN
  /\ arrows' = arrows \cup {c \in out : Drawable(c)}
  /\ final' = final \cup {c[2] : c \in out}
  /\ todo' = (todo \cup ({c[2] : c \in out} \cap pass)) \ (walked \cup {a})

Direct == /\ phase = "direct"
          /\ LET out == {c \in calls : c[1] \in listed \ human /\ c[2] \notin excl /\ c[2] \notin human} IN
             /\ arrows' = arrows \cup {c \in out : Drawable(c)}
             /\ final' = final \cup {c[2] : c \in out}
             /\ todo' = {c[2] : c \in out} \cap pass
          /\ phase' = "walk"
          /\ UNCHANGED <<calls, listed, excl, pass, human, hid, walked>>

Walk == /\ phase = "walk" /\ todo # {}
        /\ \E a \in todo : Expand(a) /\ walked' = walked \cup {a}
        /\ UNCHANGED <<calls, listed, excl, pass, human, hid, phase>>

Callers == /\ phase = "walk" /\ todo = {}
           /\ LET inc == {c \in calls : c[2] \in listed \ human /\ c[1] \notin excl} IN
              /\ arrows' = arrows \cup {c \in inc : Drawable(c)}
              /\ final' = final \cup {c[1] : c \in inc}
           /\ phase' = "indirect"
           /\ UNCHANGED <<calls, listed, excl, pass, human, hid, todo, walked>>

Indirect == /\ phase = "indirect"
            /\ arrows' = arrows \cup {c \in calls : c[1] \in final /\ c[2] \in final /\ Drawable(c)}
            /\ phase' = "done"
            /\ UNCHANGED <<calls, listed, excl, pass, human, hid, final, todo, walked>>

Next == Direct \/ Walk \/ Callers \/ Indirect
Spec == Init /\ [][Next]_vars /\ WF_vars(Next)

\* --- properties, stated on any set of arrows ---------------------------------
\* hm = human actors, hd = applications with a hidden endpoint
SoundA(ar, cs, ex, hm, hd) == \A a \in ar : a \in cs /\ a[1] \notin ex /\ a[2] \notin ex /\ a[2] \notin hm /\ a[2] \notin hd
CompleteA(ar, cs, ls, ex, hm, hd) ==
  \A c \in cs : (c[1] \in ls \ hm /\ c[2] # c[1] /\ c[2] \notin ex /\ c[2] \notin hm /\ c[2] \notin hd) => c \in ar

\* --- the Mermaid generator of the same diagram kind (pkg/mermaid/integrationdiagram) ---------
\* It has no views: the full diagram draws every calling pair of the model once (the project application included);
\* the diagram of one application draws the calling pairs of every application that one reaches.
RECURSIVE ReachFrom(_, _, _)
ReachFrom(cs, S, n) == IF n = 0 THEN S ELSE ReachFrom(cs, S \cup {c[2] : c \in {d \in cs : d[1] \in S}}, n - 1)
MermaidFull(cs) == cs
MermaidOf(cs, a) == {c \in cs : c[1] \in ReachFrom(cs, {a}, Cardinality(cs) + 1)}

Sound == SoundA(arrows, calls, excl, human, hid)
Complete == phase = "done" => CompleteA(arrows, calls, listed, excl, human, hid)
\* pass-through cycles end
Terminates == <>(phase = "done")
=============================================================================
