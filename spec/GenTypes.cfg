SPECIFICATION GenSpec
CONSTANTS
  MaxDecls = 36
  Sample = TRUE
  WithPlans = FALSE
  BlockBudget = 1000
  MinDecls = 16
  MaxNest = 5
  TypesOnly = TRUE
  CallsOnly = FALSE
  Rich = TRUE
  Inplace = TRUE
  Collectors = FALSE
CHECK_DEADLOCK FALSE
