--------------------------- MODULE DeterminismTrace ---------------------------
EXTENDS Determinism, Json
VARIABLES l
Trace == ndJsonDeserialize("trace.ndjson")
Ev == Trace[l]
Is(e) == l <= Len(Trace) /\ Trace[l].e = e
Say(kind, t, what) == PrintT(<<kind, ToJson([t |-> t, l |-> l, what |-> what])>>)
Gen == /\ Is("gen")
       /\ LET key == <<Ev.g, Ev.k, Ev.input>> IN
          /\ Observe(key, Ev.digest)
          /\ (key \in DOMAIN seen /\ seen[key] # Ev.digest) =>
                Say("VERDICT", Ev.t, [g |-> Ev.g, input |-> Ev.input, run |-> Ev.run, pid |-> Ev.pid])
       /\ l' = l + 1
\* begin markers and generators that fail (judged by C20) carry no observation
Other == (Is("begin") \/ Is("genfail") \/ Is("fatal")) /\ l' = l + 1 /\ UNCHANGED vars
TraceInit == Init /\ l = 1
TraceSpec == TraceInit /\ [][Gen \/ Other]_<<vars, l>>
Consumed == TLCSet(1, l)
AllConsumed == TLCGet(1) = Len(Trace) + 1
=============================================================================
