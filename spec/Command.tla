------------------------------ MODULE Command ------------------------------
(***************************************************************************)
(* Life cycle of one compilation or one CLI command (C01, C20).            *)
(*                                                                         *)
(*   idle --Start--> running --Succeed--> done(output, status 0)           *)
(*                           --Fail-----> done(error message, status # 0)  *)
(*                                                                         *)
(* There is no action for a runtime panic, a fatal runtime error (stack    *)
(* exhaustion), a hang or a killed process: a trace containing one is not  *)
(* a behaviour of this specification.                                      *)
(***************************************************************************)
EXTENDS Integers, Sequences, TLC

VARIABLES phase, result
vars == <<phase, result>>

NoResult == [kind |-> "none", status |-> 0, output |-> FALSE, message |-> FALSE]

Init == phase = "idle" /\ result = NoResult

Start == phase = "idle" /\ phase' = "running" /\ result' = NoResult

Succeed == /\ phase = "running" /\ phase' = "done"
           /\ result' = [kind |-> "ok", status |-> 0, output |-> TRUE, message |-> FALSE]

Fail == /\ phase = "running" /\ phase' = "done"
        /\ \E s \in 1..3 : result' = [kind |-> "error", status |-> s, output |-> FALSE, message |-> TRUE]

Reset == phase = "done" /\ phase' = "idle" /\ result' = NoResult

Next == Start \/ Succeed \/ Fail \/ Reset
Spec == Init /\ [][Next]_vars /\ WF_vars(Succeed \/ Fail)

\* a finished command has its output and status 0, or an error message and a non-zero status
Clean == phase = "done" =>
           \/ result.kind = "ok" /\ result.status = 0 /\ result.output
           \/ result.kind = "error" /\ result.status # 0 /\ result.message
\* every started command finishes
Terminates == (phase = "running") ~> (phase = "done")
=============================================================================
