----------------------------- MODULE Determinism -----------------------------
(***************************************************************************)
(* A generator is a deterministic function of (generator, options, input): *)
(* the first observation of a key fixes the output; every later            *)
(* observation, in the same process or another one, must agree (C07, C19). *)
(***************************************************************************)
EXTENDS Integers, Sequences, FiniteSets, TLC

VARIABLES seen,    \* key -> output digest of the first observation
          bad      \* keys for which a later observation disagreed
vars == <<seen, bad>>

Init == seen = <<>> /\ bad = {}

Observe(key, digest) ==
  IF key \in DOMAIN seen
    THEN /\ bad' = (IF seen[key] = digest THEN bad ELSE bad \cup {key})
         /\ UNCHANGED seen
    ELSE /\ seen' = (key :> digest) @@ seen
         /\ UNCHANGED bad

\* design-level sanity: with a deterministic environment nothing is ever flagged
CONSTANTS Keys, Digests
F == [k \in Keys |-> CHOOSE d \in Digests : TRUE]
NextDet == \E k \in Keys : Observe(k, F[k])
SpecDet == Init /\ [][NextDet]_vars
NeverFlagged == bad = {}
\* ... and a disagreeing second observation is always flagged
NextAny == \E k \in Keys, d \in Digests : Observe(k, d)
SpecAny == Init /\ [][NextAny]_vars
FlaggedIffDisagreed == \A k \in bad : k \in DOMAIN seen
=============================================================================
