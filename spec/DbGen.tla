-------------------------------- MODULE DbGen --------------------------------
(* Version histories of relational models: a first version is built table by  *)
(* table (foreign keys point at tables of lower rank, so the graph is         *)
(* acyclic), then edit actions produce the later versions.  The design-level  *)
(* check: the intended creation script of every version, run on the catalog   *)
(* machine, yields Expected(version) without tripping an enabling condition.  *)
EXTENDS DbCatalog, Json

CONSTANTS MaxEdits, Sample, Deep   \* Deep: every table refers twice to earlier tables, to foreign-key columns where there are any

Names == <<"Ta", "Tb", "Tc", "Td">>

VARIABLES vs,      \* sequence of versions built so far (the last one is being edited)
          step     \* setup index / edit count
gvars == <<vs, step>>

Pick(S) == IF Sample /\ S # {} THEN {RandomElement(S)} ELSE S
\* a random draw is bound once by ranging over a singleton set (a LET name would be re-evaluated at every use)
One(S) == CHOOSE x \in S : TRUE

PrimCol(n, p, sz, pk, ai) == [name |-> n, ref |-> FALSE, prim |-> p, size |-> sz, rt |-> "", rc |-> "", pk |-> pk, autoinc |-> ai]
RefCol(n, t, c, pk) == [name |-> n, ref |-> TRUE, prim |-> "", size |-> 0, rt |-> t, rc |-> c, pk |-> pk, autoinc |-> FALSE]

Cur == vs[Len(vs)]
TNames(v) == {v[i].name : i \in DOMAIN v}
CNames(v, t) == {Table(v, t).cols[i].name : i \in DOMAIN Table(v, t).cols}
Rank(t) == CHOOSE i \in DOMAIN Names : Names[i] = t

\* columns of tables of lower rank a foreign key may point at
Targets(v, t) == UNION {{<<u, c>> : c \in CNames(v, u)} : u \in {x \in TNames(v) : Rank(x) < Rank(t)}}

\* is column (t, c) referenced by some column of version v
Referenced(v, t, c) == \E u \in TNames(v) : \E i \in DOMAIN Table(v, u).cols :
                          Table(v, u).cols[i].ref /\ Table(v, u).cols[i].rt = t /\ Table(v, u).cols[i].rc = c

SetTable(v, t, cols) == [i \in DOMAIN v |-> IF v[i].name = t THEN [name |-> t, cols |-> cols] ELSE v[i]]
Without(s, n) == SelectSeq(s, LAMBDA x : x.name # n)
\* tables are kept in rank order
InsertTable(v, tab) == SelectSeq(v, LAMBDA x : Rank(x.name) < Rank(tab.name)) \o <<tab>>
                       \o SelectSeq(v, LAMBDA x : Rank(x.name) > Rank(tab.name))

NewTable(v, t) ==
  LET base == <<PrimCol("id", "int", 0, TRUE, RandomElement({TRUE, FALSE}))>>
      k2 == IF RandomElement(1..3) = 1 THEN <<PrimCol("k2", "int", 0, TRUE, FALSE)>> ELSE <<>>
      n == IF RandomElement(1..2) = 1 THEN <<PrimCol("n", "string", RandomElement({0, 20}), FALSE, FALSE)>> ELSE <<>>
      d == IF RandomElement(1..3) = 1 THEN <<PrimCol("d", RandomElement({"date", "float", "bool"}), 0, FALSE, FALSE)>> ELSE <<>>
      tg == Targets(v, t)
      \* Deep: r1 refers to the first table (resolved at once), r2 to the table just before (resolved last), and the
      \* last table refers to the r1 column of the table before it: a foreign key to a foreign key of a table that is
      \* still waiting for its other reference
      prev == Names[IF Rank(t) > 1 THEN Rank(t) - 1 ELSE 1]
      deep1 == IF Rank(t) = Len(Names) /\ HasCol(v, prev, "r1") THEN <<prev, "r1">> ELSE <<Names[1], "id">>
      r1 == IF tg # {} /\ (Deep \/ RandomElement(1..3) > 1)
              THEN One({<<RefCol("r1", x[1], x[2], FALSE)>> : x \in {IF Deep THEN deep1 ELSE RandomElement(tg)}}) ELSE <<>>
      r2 == IF tg # {} /\ (Deep \/ RandomElement(1..3) = 1)
              THEN One({<<RefCol("r2", x[1], x[2], RandomElement(1..4) = 1)>> : x \in {IF Deep THEN <<prev, "id">> ELSE RandomElement(tg)}}) ELSE <<>>
  IN [name |-> t, cols |-> base \o k2 \o n \o d \o r1 \o r2]

Init == vs = << <<>> >> /\ step = 0

Setup == /\ Len(vs) = 1 /\ step < Len(Names)
         /\ LET t == Names[step + 1] IN
            IF step = 0 \/ Deep \/ RandomElement(1..4) > 1
              THEN vs' = <<InsertTable(Cur, NewTable(Cur, t))>>
              ELSE vs' = vs
         /\ step' = step + 1

\* --- edits ------------------------------------------------------------------
\* names of added columns: they sort before, between and after the columns of the first version
AddNames == {"a0", "x1", "x2"}
Edits(v) ==
  LET ts == TNames(v) IN
  \* add a column
  {[k |-> "addcol", t |-> tc[1], c |-> tc[2]] : tc \in {x \in ts \X AddNames : x[2] \notin CNames(v, x[1])}}
  \cup {[k |-> "dropcol", t |-> t, c |-> c] : t \in ts, c \in {"k2", "n", "d", "r1", "r2", "x1", "x2", "a0"}}
  \cup {[k |-> "retype", t |-> t, c |-> c] : t \in ts, c \in {"n", "d", "x1", "x2", "a0"}}
  \cup {[k |-> "addtable", t |-> Names[i]] : i \in {j \in DOMAIN Names : Names[j] \notin ts}}
  \cup {[k |-> "droptable", t |-> t] : t \in ts}
  \cup {[k |-> "togglekey", t |-> t, c |-> c] : t \in ts, c \in {"k2", "n"}}
  \cup {[k |-> "addref", t |-> t, c |-> c] : t \in ts, c \in {"d", "x1", "x2", "a0", "n"}}
  \cup {[k |-> "dropref", t |-> t, c |-> c] : t \in ts, c \in {"r1", "r2", "x1", "x2", "a0"}}
  \cup {[k |-> "toggleautoinc", t |-> t] : t \in ts}

Applicable(v, e) ==
  CASE e.k = "addcol" -> TRUE
    [] e.k = "dropcol" -> HasCol(v, e.t, e.c) /\ ~Referenced(v, e.t, e.c)
    [] e.k = "retype" -> HasCol(v, e.t, e.c) /\ ~Col(v, e.t, e.c).ref /\ ~Referenced(v, e.t, e.c)
    [] e.k = "addtable" -> TRUE
    [] e.k = "droptable" -> Len(v) > 1 /\ \A c \in CNames(v, e.t) : ~Referenced(v, e.t, c)
    [] e.k = "togglekey" -> HasCol(v, e.t, e.c)
    [] e.k = "addref" -> HasCol(v, e.t, e.c) /\ ~Col(v, e.t, e.c).ref /\ ~Referenced(v, e.t, e.c) /\ Targets(v, e.t) # {}
    [] e.k = "dropref" -> HasCol(v, e.t, e.c) /\ Col(v, e.t, e.c).ref /\ ~Referenced(v, e.t, e.c)
    [] e.k = "toggleautoinc" -> ~Referenced(v, e.t, "id")

MapCol(v, t, c, f(_)) == SetTable(v, t, [i \in DOMAIN Table(v, t).cols |->
                            IF Table(v, t).cols[i].name = c THEN f(Table(v, t).cols[i]) ELSE Table(v, t).cols[i]])

Apply(v, e) ==
  CASE e.k = "addcol" ->
         LET tg == Targets(v, e.t)
             col == IF tg # {} /\ RandomElement(1..2) = 1
                      THEN One({RefCol(e.c, x[1], x[2], FALSE) : x \in {RandomElement(tg)}})
                      ELSE PrimCol(e.c, RandomElement({"int", "string", "date"}), RandomElement({0, 30}), RandomElement(1..5) = 1, FALSE)
         IN SetTable(v, e.t, Append(Table(v, e.t).cols, col))
    [] e.k = "dropcol" -> SetTable(v, e.t, Without(Table(v, e.t).cols, e.c))
    [] e.k = "retype" ->
         One({MapCol(v, e.t, e.c, LAMBDA x : [x EXCEPT !.prim = np, !.size = IF np = "string" THEN RandomElement({0, 30, 60}) ELSE 0]) :
                np \in {RandomElement({"int", "string", "date"} \ {Col(v, e.t, e.c).prim})}})
    [] e.k = "addtable" -> InsertTable(v, NewTable(v, e.t))
    [] e.k = "droptable" -> Without(v, e.t)
    [] e.k = "togglekey" -> MapCol(v, e.t, e.c, LAMBDA x : [x EXCEPT !.pk = ~@])
    [] e.k = "addref" -> One({MapCol(v, e.t, e.c, LAMBDA y : RefCol(y.name, x[1], x[2], y.pk)) : x \in {RandomElement(Targets(v, e.t))}})
    [] e.k = "dropref" -> MapCol(v, e.t, e.c, LAMBDA y : PrimCol(y.name, "int", 0, y.pk, FALSE))
    [] e.k = "toggleautoinc" -> MapCol(v, e.t, "id", LAMBDA x : [x EXCEPT !.autoinc = ~@])

\* one step to the next version is one edit, or (sampling) up to three edits applied one after the other, so that a
\* single delta can add several columns to one table, add a table and a reference to it, and so on
RECURSIVE ApplySome(_, _)
ApplySome(v, n) ==
  IF n = 0 \/ {x \in Edits(v) : Applicable(v, x)} = {} THEN v
  ELSE One({ApplySome(Apply(v, e), n - 1) : e \in {RandomElement({x \in Edits(v) : Applicable(v, x)})}})

Edit == /\ Len(vs) >= 1 /\ step >= Len(Names) /\ step < Len(Names) + MaxEdits
        /\ \E e \in Pick({x \in Edits(Cur) : Applicable(Cur, x)}) :
             \E more \in (IF Sample THEN {RandomElement(0..2)} ELSE {0}) :
               vs' = Append(vs, ApplySome(Apply(Cur, e), more))
        /\ step' = step + 1

Emit == /\ step = Len(Names) + MaxEdits
        /\ PrintT(<<"SCN", ToJson([versions |-> vs])>>)
        /\ step' = step + 1 /\ UNCHANGED vs

\* chains: n tables, each referring to the key of the one before (the deepest table is n - 1 steps from the first);
\* emitted once per run of the Deep configuration, next to the histories
Pad(i) == IF i < 10 THEN "0" \o ToString(i) ELSE ToString(i)
ChainTable(i) == [name |-> "T" \o Pad(i),
                  cols |-> <<PrimCol("id", "int", 0, TRUE, FALSE)>>
                           \o (IF i > 1 THEN <<RefCol("r1", "T" \o Pad(i - 1), "id", FALSE)>> ELSE <<>>)
                           \o <<PrimCol("n", "string", 20, FALSE, FALSE)>>]
Chain(n) == [i \in 1..n |-> ChainTable(i)]
\* forks: k chains of equal length hanging off one shared table; a table's name sorts before, and its declaration comes
\* before, the table it refers to (the shared table is declared last).  The generators order tables of equal depth by
\* name and by source line, so every table here must be placed by its depth alone.  Two versions: the shared table, then
\* all of them (every chain table is an added table of the delta).
ForkTable(c, j, len) ==
  [name |-> "C" \o ToString(c) \o "_" \o ToString(len - j + 1),
   cols |-> <<PrimCol("id", "int", 0, TRUE, FALSE),
              RefCol("r1", IF j = 1 THEN "Zbase" ELSE "C" \o ToString(c) \o "_" \o ToString(len - j + 2), "id", FALSE),
              PrimCol("n", "string", 20, FALSE, FALSE)>>]
ZBase == [name |-> "Zbase", cols |-> <<PrimCol("id", "int", 0, TRUE, FALSE)>>]
RECURSIVE ForkSeq(_, _, _)
ForkSeq(c, k, len) == IF c > k THEN <<>> ELSE [i \in 1..len |-> ForkTable(c, len - i + 1, len)] \o ForkSeq(c + 1, k, len)
Fork(k, len) == ForkSeq(1, k, len) \o <<ZBase>>
EmitChains == /\ Deep /\ step = 0 /\ vs = << <<>> >>
              /\ \A n \in {2, 9, 10, 11, 12, 14} : PrintT(<<"SCN", ToJson([versions |-> <<Chain(n)>>])>>)
              /\ \A k \in {2, 3}, len \in {3, 4} :
                   PrintT(<<"SCN", ToJson([versions |-> << <<ZBase>>, Fork(k, len) >>, keeporder |-> TRUE, reps |-> 300])>>)
              /\ step' = Len(Names) + MaxEdits + 1 /\ UNCHANGED vs

Next == Setup \/ Edit \/ Emit \/ EmitChains
Spec == Init /\ [][Next]_gvars

-----------------------------------------------------------------------------
(* Design-level check: the intended creation script (tables in rank order, which is a
   dependency order) run on the catalog machine gives Expected(v) and trips no condition *)
CreateStmt(v, tab) ==
  [e |-> "create_table", t |-> tab.name,
   cols |-> [i \in DOMAIN tab.cols |-> <<tab.cols[i].name, ColType(v, tab.name, tab.cols[i].name, 6)>>],
   pk |-> LET ks == SelectSeq(tab.cols, LAMBDA c : c.pk) IN [i \in DOMAIN ks |-> ks[i].name],
   fks |-> LET rs == SelectSeq(tab.cols, LAMBDA c : c.ref) IN [i \in DOMAIN rs |-> <<rs[i].name, rs[i].rt, rs[i].rc>>]]
IntendedCreate(v) == [i \in DOMAIN v |-> CreateStmt(v, v[i])]
CreateIsExact == \A i \in DOMAIN vs :
                   LET s == Run(S0, IntendedCreate(vs[i])) IN s.bad = {} /\ Diff(s.cat, vs[i]) = {}
=============================================================================
