------------------------------ MODULE DbCatalog ------------------------------
(***************************************************************************)
(* Database scripts (pkg/database): the emitted DDL is interpreted on a    *)
(* relational catalog                                                      *)
(*   cat : table name -> [cols : column -> type, pk : set of columns,      *)
(*                        fks : set of <<column, table, column>>]          *)
(* Each statement the generator can emit is an action with the enabling    *)
(* conditions of the database: a table is created once, after every table  *)
(* it references; a column is added once; a constraint is dropped only if  *)
(* it exists; a referenced column cannot be dropped.  A relational model   *)
(* version denotes the catalog Expected(v): a foreign-key column takes the *)
(* type of the column it references, transitively; an auto-increment key   *)
(* is a bigint.                                                            *)
(*                                                                         *)
(* A model version is a sequence of tables [name, cols]; a column is       *)
(* [name, ref (BOOLEAN), prim, size, rt, rc, pk, autoinc].                 *)
(***************************************************************************)
EXTENDS Integers, Sequences, FiniteSets, TLC

Range(s) == {s[i] : i \in DOMAIN s}

Table(v, t) == v[CHOOSE i \in DOMAIN v : v[i].name = t]
Col(v, t, c) == LET cs == Table(v, t).cols IN cs[CHOOSE i \in DOMAIN cs : cs[i].name = c]
HasTable(v, t) == \E i \in DOMAIN v : v[i].name = t
HasCol(v, t, c) == HasTable(v, t) /\ \E i \in DOMAIN Table(v, t).cols : Table(v, t).cols[i].name = c

PrimType(col) ==
  IF col.autoinc THEN "bigint"
  ELSE CASE col.prim = "int" -> "integer"
         [] col.prim = "date" -> "date"
         [] col.prim = "string" -> "varchar (" \o ToString(IF col.size > 0 THEN col.size ELSE 50) \o ")"
         [] OTHER -> "varchar (50)"

RECURSIVE ColType(_, _, _, _)
\* the SQL type a column of model version v denotes (n bounds the reference chain)
ColType(v, t, c, n) ==
  LET col == Col(v, t, c) IN
  IF col.ref /\ n > 0 /\ HasCol(v, col.rt, col.rc) THEN ColType(v, col.rt, col.rc, n - 1)
  ELSE IF col.ref THEN "?" ELSE PrimType(col)

Expected(v) ==
  [t \in {v[i].name : i \in DOMAIN v} |->
     LET cs == Table(v, t).cols IN
     [cols |-> [c \in {cs[i].name : i \in DOMAIN cs} |-> ColType(v, t, c, 6)],
      pk |-> {cs[i].name : i \in {j \in DOMAIN cs : cs[j].pk}},
      fks |-> {<<cs[i].name, cs[i].rt, cs[i].rc>> : i \in {j \in DOMAIN cs : cs[j].ref}}]]

-----------------------------------------------------------------------------
(* The catalog machine as a pure step function: state [cat, seqs, bad]     *)

S0 == [cat |-> <<>>, seqs |-> {}, bad |-> {}]
Flag(s, cond, name) == IF cond THEN s ELSE [s EXCEPT !.bad = @ \cup {name}]
Has(s, t) == t \in DOMAIN s.cat
HasC(s, t, c) == Has(s, t) /\ c \in DOMAIN s.cat[t].cols

NormType(ty) == IF ty = "bigserial" THEN "bigint" ELSE ty

\* st is a statement record; unknown fields are not accessed
Do(s, st) ==
  CASE st.e = "create_table" ->
         LET cols == [c \in {st.cols[i][1] : i \in DOMAIN st.cols} |->
                        NormType(st.cols[CHOOSE i \in DOMAIN st.cols : st.cols[i][1] = c][2])]
             fks == {<<st.fks[i][1], st.fks[i][2], st.fks[i][3]>> : i \in DOMAIN st.fks}
             s1 == Flag(s, ~Has(s, st.t), "TableCreatedTwice")
             s2 == Flag(s1, \A fk \in fks : fk[2] = st.t \/ HasC(s, fk[2], fk[3]), "ReferencedTableNotYetCreated")
             s3 == Flag(s2, Cardinality(DOMAIN cols) = Len(st.cols), "ColumnDefinedTwice")
             s4 == Flag(s3, \A i \in DOMAIN st.cols : st.cols[i][2] # "", "ColumnWithoutType")
         IN [s4 EXCEPT !.cat = (st.t :> [cols |-> cols, pk |-> {st.pk[i] : i \in DOMAIN st.pk}, fks |-> fks]) @@ @]
    [] st.e = "add_column" ->
         LET s1 == Flag(Flag(s, Has(s, st.t), "AlterUnknownTable"), ~HasC(s, st.t, st.c), "ColumnAddedTwice")
             s2 == Flag(s1, st.ty # "", "ColumnWithoutType")
         IN IF Has(s, st.t) THEN [s2 EXCEPT !.cat[st.t].cols = (st.c :> NormType(st.ty)) @@ @] ELSE s2
    [] st.e = "drop_column" ->
         LET s1 == Flag(s, HasC(s, st.t, st.c), "DropUnknownColumn")
             refd == \E t2 \in DOMAIN s.cat : \E fk \in s.cat[t2].fks : fk[2] = st.t /\ fk[3] = st.c /\ ~(t2 = st.t /\ fk[1] = st.c)
             s2 == Flag(s1, ~refd, "DropReferencedColumn")
         IN IF HasC(s, st.t, st.c)
              THEN [s2 EXCEPT !.cat[st.t] = [cols |-> [c \in DOMAIN @.cols \ {st.c} |-> @.cols[c]],
                                             pk |-> @.pk \ {st.c},
                                             fks |-> {fk \in @.fks : fk[1] # st.c}]]
              ELSE s2
    [] st.e = "alter_type" ->
         LET s1 == Flag(Flag(s, HasC(s, st.t, st.c), "AlterUnknownColumn"), st.ty # "", "ColumnWithoutType")
         IN IF HasC(s, st.t, st.c) THEN [s1 EXCEPT !.cat[st.t].cols[st.c] = NormType(st.ty)] ELSE s1
    [] st.e = "add_fk" ->
         LET s1 == Flag(s, HasC(s, st.t, st.c) /\ HasC(s, st.t2, st.c2), "ForeignKeyOnUnknownColumn")
         IN IF Has(s, st.t) THEN [s1 EXCEPT !.cat[st.t].fks = @ \cup {<<st.c, st.t2, st.c2>>}] ELSE s1
    [] st.e = "add_pk" ->
         LET cols == {st.cols[i] : i \in DOMAIN st.cols}
             s1 == Flag(s, Has(s, st.t) /\ \A c \in cols : HasC(s, st.t, c), "PrimaryKeyOnUnknownColumn")
             s2 == Flag(s1, ~Has(s, st.t) \/ s.cat[st.t].pk = {}, "SecondPrimaryKey")
         IN IF Has(s, st.t) THEN [s2 EXCEPT !.cat[st.t].pk = cols] ELSE s2
    [] st.e = "drop_constraint" ->
         \* names: <TABLE>_PK for the key, <TABLE>_<COLUMN>_FK for a foreign key (upper case)
         IF ~Has(s, st.t) THEN Flag(s, FALSE, "AlterUnknownTable")
         ELSE IF st.kind = "pk"
           THEN [Flag(s, s.cat[st.t].pk # {}, "DropMissingConstraint") EXCEPT !.cat[st.t].pk = {}]
           ELSE [Flag(s, \E fk \in s.cat[st.t].fks : fk[1] = st.c, "DropMissingConstraint")
                   EXCEPT !.cat[st.t].fks = {fk \in @ : fk[1] # st.c}]
    [] st.e = "create_sequence" -> [Flag(s, st.s \notin s.seqs, "SequenceCreatedTwice") EXCEPT !.seqs = @ \cup {st.s}]
    [] st.e \in {"set_default", "own_sequence", "setval"} -> Flag(s, st.s \in s.seqs, "UnknownSequence")
    [] OTHER -> Flag(s, FALSE, "UnreadableStatement")

RECURSIVE Run(_, _)
Run(s, sts) == IF sts = <<>> THEN s ELSE Run(Do(s, Head(sts)), Tail(sts))

\* what is wrong with catalog `cat' as an implementation of model version v
Diff(cat, v) ==
  LET want == Expected(v) IN
  UNION {IF t \notin DOMAIN cat THEN {"TableMissing"}
         ELSE (IF DOMAIN cat[t].cols # DOMAIN want[t].cols THEN {"ColumnsDiffer"} ELSE
                 IF \E c \in DOMAIN want[t].cols : cat[t].cols[c] # want[t].cols[c] THEN {"ColumnTypeDiffers"} ELSE {})
              \cup (IF cat[t].pk # want[t].pk THEN {"PrimaryKeyDiffers"} ELSE {})
              \cup (IF cat[t].fks # want[t].fks THEN {"ForeignKeysDiffer"} ELSE {})
         : t \in DOMAIN want}
=============================================================================
