SPECIFICATION GenSpec
CONSTANTS
  Files = {"r", "a", "b", "c", "d"}
  Root = "r"
  Depths = {0, 2, 3, 4}
  MaxImports = 3
  AliasSet = {""}
  FaultKinds = {}
CHECK_DEADLOCK FALSE
