SPECIFICATION SpecFaithful
CONSTANT Digests = {"d1", "d2"}
INVARIANT NeverFlagged
CHECK_DEADLOCK FALSE
