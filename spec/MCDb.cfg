\* design-level: all histories of <= 1 edit over the table-building choices, sampled per component
SPECIFICATION Spec
CONSTANTS
  MaxEdits = 1
  Deep = FALSE
  Sample = FALSE
INVARIANT CreateIsExact
CHECK_DEADLOCK FALSE
