\* import-as name conflicts: every digraph on 3 files (<= 2 imports each) x names {"", "X"}, every interleaving
SPECIFICATION GenSpec
CONSTANTS
  Files = {"r", "a", "b"}
  Root = "r"
  Depths = {0}
  MaxImports = 2
  AliasSet = {"", "X"}
  FaultKinds = {}
INVARIANTS ReadOnce AlwaysClean
CHECK_DEADLOCK FALSE
