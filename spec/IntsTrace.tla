------------------------------ MODULE IntsTrace ------------------------------
(* The dependency list built by the real IntsBuilder and the arrows of the    *)
(* generated PlantUML, judged by Sound / Complete of IntsDiagram.tla.         *)
EXTENDS IntsDiagram, Json
VARIABLES l, scn
Trace == ndJsonDeserialize("trace.ndjson")
Ev == Trace[l]
Is(e) == l <= Len(Trace) /\ Trace[l].e = e
Say(kind, t, what) == PrintT(<<kind, ToJson([t |-> t, l |-> l, what |-> what])>>)
Pairs(s) == {<<s[i][1], s[i][2]>> : i \in DOMAIN s}
SetOf(s) == {s[i] : i \in DOMAIN s}

Begin == Is("begin") /\ scn' = Ev /\ l' = l + 1 /\ UNCHANGED vars

Deps ==
  /\ Is("deps")
  /\ LET cs == Pairs(scn.calls)
         ls == SetOf(scn.listed)
         ex == SetOf(scn.excl) \cup {"Proj"}
         hm == SetOf(scn.human)
         hd == SetOf(scn.hid)
         ar == {<<Ev.edges[i][1], Ev.edges[i][3]>> : i \in DOMAIN Ev.edges}
         drawn == Pairs(Ev.arrows)
         \* the arrows are read back from the diagram text in every view (endpoint-analysis view: an arrow between
         \* endpoint states of two applications is an arrow between the applications)
         textual == scn.view \in {"plain", "clustered", "epa"}
         bad == (IF SoundA(ar, cs, ex, hm, hd) THEN {} ELSE {"ArrowWithoutCallOrExcluded"})
                \cup (IF CompleteA(ar, cs, ls, ex, hm, hd) THEN {} ELSE {"CallNotDrawn"})
                \cup (IF textual /\ ~SoundA(drawn, cs, ex, hm, hd) THEN {"DrawnArrowWithoutCallOrExcluded"} ELSE {})
                \cup (IF textual /\ ~CompleteA(drawn, cs, ls, ex, hm, hd) THEN {"CallNotDrawnInDiagram"} ELSE {})
                \cup (IF Ev.unknown # <<>> THEN {"UndeclaredAlias"} ELSE {})
                \cup (IF ~Ev.hastext THEN {"NoDiagramForView"} ELSE {})
     IN bad # {} => Say("VERDICT", Ev.t, bad)
  /\ l' = l + 1 /\ UNCHANGED <<vars, scn>>

\* beyond C14: the Mermaid generator, judged against the same call relation (the project application calls nobody)
Mermaid ==
  /\ Is("mermaid")
  /\ LET cs == Pairs(scn.calls)
         want == IF Ev.kind = "full" THEN MermaidFull(cs) ELSE MermaidOf(cs, Ev.kind)
         got == Pairs(Ev.arrows)
         bad == IF ~Ev.ok THEN {"MermaidNoDiagram"}
                ELSE (IF got \subseteq cs THEN {} ELSE {"MermaidArrowWithoutCall"})
                     \cup (IF want \subseteq got THEN {} ELSE {"MermaidCallNotDrawn"})
                     \cup (IF got \subseteq want THEN {} ELSE {"MermaidArrowOfUnreachedApplication"})
     IN bad # {} => Say("EXTRA", Ev.t, [kind |-> IF Ev.kind = "full" THEN "full" ELSE "one-application", bad |-> bad])
  /\ l' = l + 1 /\ UNCHANGED <<vars, scn>>

Normal == Begin \/ Deps \/ Mermaid
\* panic, fatal (stack exhaustion on a pass-through cycle), timeout: no action
Skip == /\ l <= Len(Trace) /\ ~ENABLED Normal /\ Say("REJECT", Ev.t, Ev.e) /\ l' = l + 1 /\ UNCHANGED <<vars, scn>>
TraceInit == /\ l = 1 /\ scn = <<>> /\ calls = {} /\ listed = {} /\ excl = {} /\ pass = {} /\ human = {} /\ hid = {} /\ final = {}
             /\ arrows = {} /\ todo = {} /\ walked = {} /\ phase = "trace"
TraceSpec == TraceInit /\ [][Normal \/ Skip]_<<vars, l, scn>>
Consumed == TLCSet(1, l)
AllConsumed == TLCGet(1) = Len(Trace) + 1
=============================================================================
