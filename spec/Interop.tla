------------------------------- MODULE Interop -------------------------------
(* The stage machine over the facts of InteropFacts.tla (see there).       *)
EXTENDS InteropFacts

(* The stage machine                                                       *)

ImportStages == <<"render", "import", "compile", "observe", "again">>
ExportStages == <<"compile", "export", "validate", "read", "importback">>

VARIABLES doc, fmt, dir, stage, bad
vars == <<doc, fmt, dir, stage, bad>>

NoDoc == [types |-> <<>>, eps |-> <<>>]
Init == doc = NoDoc /\ fmt = "" /\ dir = "" /\ stage = 0 /\ bad = {}

Stages == IF dir = "import" THEN ImportStages ELSE ExportStages

Start(d, f, direction) == doc' = d /\ fmt' = f /\ dir' = direction /\ stage' = 0 /\ bad' = {}

\* a stage that produces no facts: it succeeds or the run is flagged and over
Step(name, ok, flag) ==
  /\ stage < Len(Stages) /\ Stages[stage + 1] = name
  /\ stage' = IF ok THEN stage + 1 ELSE Len(Stages)
  /\ bad' = IF ok THEN bad ELSE bad \cup {flag}
  /\ UNCHANGED <<doc, fmt, dir>>

Missing(name, seen) == (IF name = "read" THEN ExpectedRead(fmt, doc) ELSE Expected(fmt, doc)) \ seen

\* a stage that observes facts: everything the format carries must be among them
Observe(name, seen, flag) ==
  /\ stage < Len(Stages) /\ Stages[stage + 1] = name
  /\ stage' = stage + 1
  /\ bad' = IF Missing(name, seen) = {} THEN bad ELSE bad \cup {flag}
  /\ UNCHANGED <<doc, fmt, dir>>

\* the export command writes the document to a file: whatever that file held before (an earlier, longer export), it
\* then holds the document and nothing of what was there before (same: the file parses and names nothing that only
\* the earlier model declared)
Written(ok, same) ==
  /\ bad' = bad \cup (IF ok /\ same THEN {} ELSE {"RewrittenFileDiffers"})
  /\ UNCHANGED <<doc, fmt, dir, stage>>

\* design-level sanity: a carrier that reports exactly the facts is never flagged, and a run ends
CONSTANTS Docs, Formats
NextFaithful ==
  \/ \E d \in Docs, f \in Formats, x \in {"import", "export"} : Start(d, f, x)
  \/ dir = "import" /\ \E n \in {"render", "import", "compile", "again"} : Step(n, TRUE, n)
  \/ dir = "import" /\ Observe("observe", Expected(fmt, doc), "Incomplete")
  \/ dir = "export" /\ \E n \in {"compile", "export", "validate"} : Step(n, TRUE, n)
  \/ dir = "export" /\ \E n \in {"read", "importback"} : Observe(n, ExpectedRead(fmt, doc), n)
SpecFaithful == Init /\ [][NextFaithful]_vars
NeverFlagged == bad = {}
StageInRange == stage \in 0..5
=============================================================================
