SPECIFICATION GenSpec
CONSTANTS
  Segs = {"", ".", "..", "a", "b.c", "d e"}
  MaxLen = 3
  RootSet <- GenRoots
CHECK_DEADLOCK FALSE
