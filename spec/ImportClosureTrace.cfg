SPECIFICATION TraceSpec
CONSTANTS
  Files = {"r", "a", "b", "c", "d", "e"}
  Root = "r"
  Depths = {0}
  MaxImports = 2
  FaultKinds = {}
INVARIANTS JudgeInv ReadOnce
CONSTRAINT Consumed
POSTCONDITION AllConsumed
CHECK_DEADLOCK FALSE
