------------------------------ MODULE EvalGen ------------------------------
(* View bodies as behaviours: each step binds a fresh variable to an operator  *)
(* applied to literals or earlier variables; Pure is the action property that  *)
(* no step changes an existing binding.                                        *)
EXTENDS Eval, Json
CONSTANTS MaxLets, Sample, Focus   \* Focus = "collections": list/set operators only, operands mostly earlier variables

VARIABLES scope, prog
vars == <<scope, prog>>

IntLits == {IntV(0), IntV(1), IntV(2), IntV(3), IntV(5), IntV(7)}
StrLits == {Str("a"), Str("b"), Str("ab"), Str("")}
ListLits == {List(<<IntV(1), IntV(2), IntV(3)>>), List(<<IntV(4)>>), List(<<IntV(9)>>), List(<<IntV(2), IntV(2)>>), List(<<IntV(5), IntV(1)>>), List(<<IntV(1), IntV(2), IntV(1), IntV(2), IntV(1), IntV(2)>>),
             List(<<IntV(1), IntV(2), IntV(3), IntV(4), IntV(5)>>), List(<<Str("a"), Str("b")>>), List(<<Str("ab")>>),
             List(<<Str("b"), Str("a")>>), List(<<Str("b"), Str("ab"), Str("a")>>), List(<<Str("ab"), Str("b"), Str("a"), Str("b")>>)}
SetLits == {Set({IntV(1), IntV(2)}), Set({IntV(2), IntV(3)}), Set({IntV(7)}), Set({IntV(1), IntV(2), IntV(3), IntV(4)}),
            Set({Str("a"), Str("ab")}), Set({Str("b")})}
Lits == IntLits \cup StrLits \cup ListLits \cup SetLits \cup {Bool(TRUE), Bool(FALSE)}

AllOps == {"add", "sub", "mul", "div", "mod", "lt", "le", "gt", "ge", "eq", "ne", "cat", "and", "neg", "ite",
        "lcat", "union", "count", "in", "notin", "where", "tform", "tconst", "tset", "lit", "mkmap", "attr", "mapt", "call", "rodd", "rsum", "rall", "rlist", "sflat"}
Ops == IF Focus = "concat" THEN {"lit", "lcat", "union"} ELSE IF Focus = "collections" THEN {"lit", "lcat", "union", "count", "where", "tform", "tconst", "tset", "mkmap", "attr", "mapt", "sflat", "in", "notin"} ELSE AllOps
Arity(op) == IF op \in {"neg", "count", "lit", "attr", "rodd", "rsum", "rall", "rlist", "sflat"} THEN 1 ELSE IF op \in {"ite", "mkmap"} THEN 3 ELSE 2

\* kind of a value incl. the element kind of collections (an empty collection counts as one of integers)
EK(v) == LET ks == ElemKinds(v) IN IF ks = {} THEN "int" ELSE CHOOSE x \in ks : TRUE
K(v) == IF v.k \in {"list", "set"} THEN v.k \o ":" \o EK(v) ELSE v.k

\* operand signatures of each operator
Sigs(op) ==
  CASE op \in {"add", "sub", "mul", "div", "mod", "lt", "le", "gt", "ge"} -> {<<"int", "int">>}
    [] op \in {"eq", "ne"} -> {<<"int", "int">>, <<"str", "str">>, <<"bool", "bool">>}
    [] op = "cat" -> {<<"str", "str">>}
    [] op = "and" -> {<<"bool", "bool">>}
    [] op \in {"neg", "rodd", "rsum", "rall", "rlist"} -> {<<"int">>}
    [] op = "sflat" -> {<<"list:str">>}
    [] op = "ite" -> {<<"bool", "int", "int">>, <<"bool", "str", "str">>}
    [] op = "lcat" -> {<<"list:int", "list:int">>, <<"list:str", "list:str">>}
    [] op = "union" -> {<<"set:int", "set:int">>, <<"set:str", "set:str">>}
    [] op = "count" -> {<<"list:int">>, <<"list:str">>, <<"set:int">>, <<"set:str">>, <<"list:map">>, <<"set:map">>}
    [] op \in {"in", "notin"} -> {<<"str", "list:str">>, <<"str", "set:str">>}
    [] op = "where" -> {<<"set:int", "int">>}
    [] op \in {"tform", "tconst", "tset"} -> {<<"list:int", "int">>, <<"set:int", "int">>}
    [] op = "mkmap" -> {<<"int", "int", "int">>}
    [] op = "attr" -> {<<"map">>}
    [] op = "call" -> {<<"int", "int">>}
    [] op = "mapt" -> {<<"map", "int">>}
    [] op = "lit" -> IF Focus = "concat" THEN {<<"list:int">>, <<"set:int">>}
                     ELSE {<<"int">>, <<"str">>, <<"bool">>, <<"list:int">>, <<"list:str">>, <<"set:int">>, <<"set:str">>}

RefsK(k) == {[ref |-> scope[j].v] : j \in {q \in DOMAIN scope : K(scope[q].val) = k}}
LitsK(k) == {[lit |-> x] : x \in {y \in Lits : K(y) = k}}
One(S) == IF S = {} THEN {} ELSE {RandomElement(S)}
\* operands of kind k: every one (exhaustive) or one earlier variable and one more candidate (sampling)
P(op, k) == IF op = "lit" THEN (IF Sample THEN One(LitsK(k)) ELSE LitsK(k))
            ELSE IF ~Sample THEN RefsK(k) \cup LitsK(k)
            ELSE IF RefsK(k) # {} /\ RandomElement(1..4) > 1 THEN One(RefsK(k)) \cup One(RefsK(k))
            ELSE One(RefsK(k) \cup LitsK(k))

Init == scope = <<>> /\ prog = <<>>

Let == /\ Len(prog) < MaxLets
       /\ \E op \in Ops : \E sig \in Sigs(op) :
            \E a \in P(op, sig[1]) :
              \E b \in (IF Len(sig) >= 2 THEN P(op, sig[2]) ELSE {a}) :
                \E c \in (IF Len(sig) >= 3 THEN P(op, sig[3]) ELSE {a}) :
              LET args == IF Len(sig) = 1 THEN <<a>> ELSE IF Len(sig) = 2 THEN <<a, b>> ELSE <<a, b, c>>
                  st == [v |-> "v" \o ToString(Len(prog) + 1), op |-> op, args |-> args]
              IN /\ StepOK(scope, st)
                 /\ scope' = Append(scope, [v |-> st.v, val |-> StepVal(scope, st)])
                 /\ prog' = Append(prog, st)

Emit == /\ Len(prog) >= 2
        /\ PrintT(<<"SCN", ToJson([lets |-> prog])>>)
        /\ UNCHANGED vars

Next == Let \/ (Len(prog) = MaxLets /\ Emit)
Spec == Init /\ [][Next]_vars

\* C10 purity on the design: bindings are never changed, evaluation is a function of the program
Pure == [][\A j \in DOMAIN scope : scope'[j] = scope[j]]_vars
Deterministic == RunLets(<<>>, prog) = scope
=============================================================================
