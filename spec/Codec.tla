-------------------------------- MODULE Codec --------------------------------
(***************************************************************************)
(* Serialised models (pkg/pbutil, import of compiled models in pkg/parse): *)
(* an artefact store.  Encode(fmt, compact) stores the bytes of the        *)
(* current model in the artefact's file, whatever that file held before    *)
(* (Prior: an earlier, other model written to the same file); Decode of    *)
(* the file must give back the model encoded last                          *)
(* (compact JSON: the model without locations); JSON artefacts are         *)
(* well-formed; a specification that only imports an artefact compiles to  *)
(* the same applications as the original sources.                          *)
(* Models are identified by digests of their deterministic binary          *)
(* encoding: full, without locations, applications only.                   *)
(***************************************************************************)
EXTENDS Integers, Sequences, FiniteSets, TLC

Formats == {"pb", "json", "textpb"}

VARIABLES model,   \* [full, noloc, apps] digests of the model being encoded
          store,   \* set of artefact files [fmt, compact, of]: `of` is the digest of the model written to it last
          bad
vars == <<model, store, bad>>

Init == model = [full |-> "", noloc |-> "", apps |-> ""] /\ store = {} /\ bad = {}

Compile(m) == model' = m /\ store' = {} /\ bad' = {}
\* the module is edited in place after it has been written: what is written from now on is the edited model (what was
\* found wrong so far stays found)
Edit(m) == model' = m /\ store' = {} /\ UNCHANGED bad

Others(fmt, compact) == {a \in store : ~(a.fmt = fmt /\ a.compact = compact)}
\* the file already holds the artefact of an earlier model
Prior(fmt, compact, ok, d) ==
  /\ store' = Others(fmt, compact) \cup {[fmt |-> fmt, compact |-> compact, of |-> d]}
  /\ bad' = bad \cup (IF ok THEN {} ELSE {"EncodeFails:" \o fmt})
  /\ UNCHANGED model
Encode(fmt, compact, ok) ==
  /\ store' = Others(fmt, compact) \cup {[fmt |-> fmt, compact |-> compact, of |-> model.full]}
  /\ bad' = bad \cup (IF ok THEN {} ELSE {"EncodeFails:" \o fmt})
  /\ UNCHANGED model

\* decoding an artefact gives the model that was encoded
Decode(fmt, compact, ok, full, noloc) ==
  /\ bad' = bad \cup (IF [fmt |-> fmt, compact |-> compact, of |-> model.full] \in store THEN {} ELSE {"DecodeOfUnknownArtefact"})
                \cup (IF ~ok THEN {"DecodeFails:" \o fmt}
                      ELSE IF compact /\ fmt = "json"
                        THEN (IF noloc = model.noloc THEN {} ELSE {"RoundTripDiffers:" \o fmt \o ":compact"})
                      ELSE (IF full = model.full THEN {} ELSE {"RoundTripDiffers:" \o fmt}))
  /\ UNCHANGED <<model, store>>

JsonValid(compact, ok) == bad' = bad \cup (IF ok THEN {} ELSE {"MalformedJSON"}) /\ UNCHANGED <<model, store>>

\* import of the compiled file reproduces the applications
Reimport(fmt, ok, apps) ==
  /\ bad' = bad \cup (IF ~ok THEN {"ReimportFails:" \o fmt} ELSE IF apps = model.apps THEN {} ELSE {"ReimportDiffers:" \o fmt})
  /\ UNCHANGED <<model, store>>

\* the decoder is chosen by suffix: a document that is not a compiled model (an OpenAPI description written as JSON)
\* goes to the foreign importer under the name api.json exactly as it does under the name api.yaml
Foreign(okjson, okyaml, appsjson, appsyaml) ==
  /\ model' = [full |-> "", noloc |-> "", apps |-> ""] /\ store' = {}
  /\ bad' = IF ~okyaml THEN {} ELSE IF ~okjson THEN {"PlainJsonTakenForCompiledModel"}
            ELSE IF appsjson # appsyaml THEN {"PlainJsonImportDiffers"} ELSE {}

\* design-level sanity on an abstract environment that encodes and decodes faithfully
CONSTANT Digests
NextFaithful == \/ \E d \in Digests : Compile([full |-> d, noloc |-> d, apps |-> d])
                \/ \E d \in Digests : Edit([full |-> d, noloc |-> d, apps |-> d])
                \/ \E f \in Formats, c \in BOOLEAN : Encode(f, c, TRUE)
                \/ \E f \in Formats, c \in BOOLEAN, d \in Digests : Prior(f, c, TRUE, d)
                \/ \E a \in store : a.of = model.full /\ Decode(a.fmt, a.compact, TRUE, model.full, model.noloc)
                \/ \E f \in Formats : Reimport(f, TRUE, model.apps)
SpecFaithful == Init /\ [][NextFaithful]_vars
NeverFlagged == bad = {}
=============================================================================
