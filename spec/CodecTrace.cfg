SPECIFICATION TraceSpec
CONSTANT Digests = {}
CONSTRAINT Consumed
POSTCONDITION AllConsumed
CHECK_DEADLOCK FALSE
