SPECIFICATION Spec
CONSTANTS
  MaxEdits = 2
  Sample = TRUE
INVARIANT CreateIsExact
CHECK_DEADLOCK FALSE
