SPECIFICATION Spec
CONSTANTS
  MaxEdits = 2
  Deep = FALSE
  Sample = TRUE
INVARIANT CreateIsExact
CHECK_DEADLOCK FALSE
