SPECIFICATION Spec
CONSTANTS
  MaxLets = 12
  Focus = "all"
  Sample = TRUE
CHECK_DEADLOCK FALSE
