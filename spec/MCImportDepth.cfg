\* C05 depth limits: the collector as written is exact unless a file is first claimed through a longer path
SPECIFICATION Spec
CONSTANTS
  Files = {"r", "a", "b", "c"}
  Root = "r"
  Depths = {1, 2, 3}
  MaxImports = 2
  FaultKinds = {}
INVARIANTS TypeOK ReadOnce ExactUnlessClaimedDeeper
CHECK_DEADLOCK FALSE
