---------------------------- MODULE ChrootTrace ----------------------------
(* Judges events recorded from syslutil.ChrootFs (op) and from compiles     *)
(* through loader on a ChrootFs (imp) against Chroot.tla.                   *)
EXTENDS Chroot, Json

VARIABLES l
Trace == ndJsonDeserialize("trace.ndjson")
Ev == Trace[l]

Say(kind, t, what) == PrintT(<<kind, ToJson([t |-> t, l |-> l, what |-> what])>>)

Rng(s) == {s[i] : i \in DOMAIN s}

\* every path argument of every call that reached the file system stays under the root
ConfinedCalls(rt, cs) == \A c \in Rng(cs) : \A p \in Rng(c.paths) : IsPrefix(rt, Clean(<<>>, p))

\* the calls the specification expects, compared after cleaning (spelling independence)
Norm(cs) == {[op |-> c.op, paths |-> [i \in DOMAIN c.paths |-> Clean(<<>>, c.paths[i])]] : c \in Rng(cs)}

Expected(rt, segs, r) ==
  IF r.dir = 0 THEN Calls1(rt, r.op, segs)
  ELSE IF r.dir = 1 THEN CallsRename(rt, segs, r.n2)
  ELSE CallsRename(rt, r.n2, segs)

BadRes(rt, segs, r) ==
  (IF ConfinedCalls(rt, r.calls) THEN {} ELSE {"Confined:" \o r.op})
  \cup (IF Norm(r.calls) = Expected(rt, segs, r) /\ Len(r.calls) <= 1 THEN {}
        ELSE IF Expected(rt, segs, r) = {} THEN {"NotRefused:" \o r.op} ELSE {"Works:" \o r.op})
  \cup (IF Expected(rt, segs, r) = {} /\ ~r.err THEN {"RefusedWithoutError:" \o r.op} ELSE {})

EvOp ==
  /\ l <= Len(Trace) /\ Ev.e = "op"
  /\ LET bad == UNION {BadRes(Ev.root, Ev.segs, Ev.res[i]) : i \in DOMAIN Ev.res}
     IN bad # {} => Say("VERDICT", Ev.t, bad)
  /\ l' = l + 1
  /\ UNCHANGED vars

\* a compile whose import statement spells the name
EvImp ==
  /\ l <= Len(Trace) /\ Ev.e = "imp"
  /\ LET rt == Ev.root
         base == IF Ev.abs THEN rt ELSE Append(rt, "p")
         target == Clean(<<>>, base \o Ev.segs \o <<"dep.sysl">>)
         inside == IsPrefix(rt, target)
         bad == (IF ConfinedCalls(rt, Ev.calls) THEN {} ELSE {"Confined:import"})
                \cup (IF "panic" \in DOMAIN Ev THEN {"Panic:import"} ELSE {})
                \cup (IF "panic" \notin DOMAIN Ev /\ inside /\ ~(Ev.ok /\ Ev.hasdep) THEN {"Works:import"} ELSE {})
                \cup (IF "panic" \notin DOMAIN Ev /\ ~inside /\ (Ev.ok \/ Ev.hasdep) THEN {"NotRefused:import"} ELSE {})
                \cup (IF target # Ev.target THEN {"HarnessTarget"} ELSE {})
     IN bad # {} => Say("VERDICT", Ev.t, bad)
  /\ l' = l + 1
  /\ UNCHANGED vars

TraceRoots == {<<>>}
TraceInit == Init /\ l = 1
\* the module named on the command line: whatever its spelling, no call below the loader leaves the root, and a module
\* that lies outside is not loaded
EvMod ==
  /\ l <= Len(Trace) /\ Ev.e = "mod"
  /\ LET rt == Ev.root
         dir == Clean(<<>>, rt \o Ev.segs)
         inside == IsPrefix(rt, dir)
         bad == (IF ConfinedCalls(rt, Ev.calls) THEN {} ELSE {"Confined:module"})
                \cup (IF "panic" \in DOMAIN Ev THEN {"Panic:module"} ELSE {})
                \cup (IF "panic" \notin DOMAIN Ev /\ ~inside /\ (Ev.ok \/ Ev.hasmod) THEN {"NotRefused:module"} ELSE {})
                \cup (IF dir # Ev.dir THEN {"HarnessTarget"} ELSE {})
     IN bad # {} => Say("VERDICT", Ev.t, bad)
  /\ l' = l + 1
  /\ UNCHANGED vars

TraceNext == EvOp \/ EvImp \/ EvMod
TraceSpec == TraceInit /\ [][TraceNext]_<<vars, l>>
Consumed == TLCSet(1, l)
AllConsumed == TLCGet(1) = Len(Trace) + 1
=============================================================================
