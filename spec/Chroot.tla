------------------------------- MODULE Chroot -------------------------------
(***************************************************************************)
(* Path confinement of syslutil.ChrootFs (pkg/syslutil/chroot_fs.go) and   *)
(* of everything that reaches the file system through it (loader, import   *)
(* resolution).                                                            *)
(*                                                                         *)
(* A path is a sequence of segments.  Resolution is the segment-by-segment *)
(* stack machine of "join under the root, then clean": "" and "." are      *)
(* skipped, ".." pops (and is absorbed at the file-system root), anything  *)
(* else is pushed.  A name is allowed iff the resolved path still has the  *)
(* root as a prefix.  Every wrapper operation is an action whose effect is *)
(* the set of calls that reach the underlying file system.                 *)
(***************************************************************************)
EXTENDS Integers, Sequences, FiniteSets, TLC, SequencesExt

CONSTANTS Segs,     \* segment alphabet, contains "", ".", ".." and ordinary names
          MaxLen,   \* longest name built
          RootSet   \* candidate roots (sequences of ordinary names)

Ops1 == {"Create", "Mkdir", "MkdirAll", "Open", "OpenFile", "Remove", "RemoveAll",
         "Stat", "Chmod", "Chown", "Chtimes"}

Front1(s) == SubSeq(s, 1, Len(s) - 1)

\* one step of the machine
StepSeg(stack, s) ==
  IF s \in {"", "."} THEN stack
  ELSE IF s = ".." THEN (IF stack = <<>> THEN <<>> ELSE Front1(stack))
  ELSE Append(stack, s)

RECURSIVE Clean(_, _)
Clean(stack, segs) == IF segs = <<>> THEN stack ELSE Clean(StepSeg(stack, Head(segs)), Tail(segs))

\* absolute and relative names are both joined under the root
Resolve(root, segs) == Clean(<<>>, root \o segs)
Allowed(root, segs) == IsPrefix(root, Resolve(root, segs))

\* calls reaching the underlying file system for op(name) and Rename(name, name2)
Calls1(root, op, segs) ==
  IF Allowed(root, segs) THEN {[op |-> op, paths |-> <<Resolve(root, segs)>>]} ELSE {}
CallsRename(root, s1, s2) ==
  IF Allowed(root, s1) /\ Allowed(root, s2)
    THEN {[op |-> "Rename", paths |-> <<Resolve(root, s1), Resolve(root, s2)>>]} ELSE {}

VARIABLES root, name, stack, calls
vars == <<root, name, stack, calls>>

Init == /\ root \in RootSet /\ name = <<>> /\ stack = root /\ calls = {}

Extend(s) == /\ Len(name) < MaxLen
             /\ name' = Append(name, s)
             /\ stack' = StepSeg(stack, s)
             /\ calls' = {}
             /\ UNCHANGED root

Do(op) == /\ calls' = Calls1(root, op, name) /\ UNCHANGED <<root, name, stack>>

DoRename == \E n2 \in {<<>>, <<"..">>, <<"..", "..", "o">>, <<"x">>, name} :
              /\ calls' = CallsRename(root, name, n2) \cup CallsRename(root, n2, name)
              /\ UNCHANGED <<root, name, stack>>

Next == (\E s \in Segs : Extend(s)) \/ (\E op \in Ops1 : Do(op)) \/ DoRename

Spec == Init /\ [][Next]_vars

\* --- design-level theorems checked by TLC ----------------------------------
Incremental   == stack = Resolve(root, name)                 \* walking = join-then-clean
Canonical     == \A i \in DOMAIN stack : stack[i] \notin {"", ".", ".."}
Idempotent    == Clean(<<>>, stack) = stack
Confined      == \A c \in calls : \A i \in DOMAIN c.paths : IsPrefix(root, c.paths[i])
NoDotDotIsSafe == (\A i \in DOMAIN name : name[i] # "..") => Allowed(root, name)
\* spelling independence as action properties
DotIsNeutral  == [][(name' = Append(name, ".") \/ name' = Append(name, "")) => stack' = stack]_vars
UpUndoesDown  == [][\A s \in Segs \ {"", ".", ".."} :
                      name' = Append(name, s) => StepSeg(stack', "..") = stack]_vars
=============================================================================
