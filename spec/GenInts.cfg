SPECIFICATION GenSpec
CONSTANTS
  Apps = {"A", "B", "C", "D", "E"}
  MaxMarked = 2
CHECK_DEADLOCK FALSE
