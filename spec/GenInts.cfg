SPECIFICATION GenSpec
CONSTANT Apps = {"A", "B", "C", "D", "E"}
CHECK_DEADLOCK FALSE
