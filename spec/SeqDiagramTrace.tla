--------------------------- MODULE SeqDiagramTrace ---------------------------
EXTENDS SeqDiagram, Json
VARIABLES m, l
vars == <<m>>
\* the begin event of the diagram the current line belongs to (Ev.b is its line)
Trace == ndJsonDeserialize("trace.ndjson")
Ev == Trace[l]
Is(e) == l <= Len(Trace) /\ Trace[l].e = e
Say(kind, t, what) == PrintT(<<kind, ToJson([t |-> t, l |-> l, what |-> what])>>)
Adv == l' = l + 1

\* the blackboxes of a diagram: its own, and (a diagram of a project application) those of the project
Cut(ev) == {<<ev.cut[i][1], ev.cut[i][2]>> : i \in DOMAIN ev.cut}
           \cup (IF "pcut" \in DOMAIN ev THEN {<<ev.pcut[i][1], ev.pcut[i][2]>> : i \in DOMAIN ev.pcut} ELSE {})
Starts(ev) == [i \in DOMAIN ev.starts |-> <<ev.starts[i][1], ev.starts[i][2]>>]
Begin == /\ Is("begin")
         /\ m' = M0G(IF "starts" \in DOMAIN Ev /\ Len(Ev.starts) > 1 THEN WantMany(Ev.eps, Starts(Ev), Cut(Ev))
                     ELSE Want(Ev.eps, Ev.sapp, Ev.sep, Cut(Ev)), Ev.groups)
         /\ Adv
\* an action drawn on its own lifeline ("spaced" arrow) is not a call
Step == /\ l <= Len(Trace)
        /\ Ev.e \in {"declare", "call", "return", "activate", "deactivate", "open", "else", "close", "sep", "note", "boxmember"}
        /\ m' = (IF Ev.e = "call" /\ Ev.spaced THEN m ELSE Do(m, Ev)) /\ Adv
EvEnd == /\ Is("end") /\ (AtEnd(m) # {} => Say("VERDICT", Ev.t, AtEnd(m)))
         /\ UNCHANGED m /\ Adv
\* a refusal with an error is an admissible outcome
EvError == Is("error") /\ UNCHANGED m /\ Adv

\* beyond C13: the Mermaid sequence diagram of the same start endpoint, judged against the same reference walk
Mermaid == /\ Is("mermaid")
           /\ LET b == Trace[Ev.b]
                  bad == IF ~Ev.ok THEN {"MermaidNoDiagram"}
                         ELSE MermaidJudge(Want(b.eps, b.sapp, b.sep, {}), [i \in DOMAIN Ev.arrows |-> <<Ev.arrows[i][1], Ev.arrows[i][2], Ev.arrows[i][3]>>],
                                           Ev.opens, Ev.ends, Len(Ev.unknown))
              IN bad # {} => Say("EXTRA", Ev.t, bad)
           /\ UNCHANGED m /\ Adv

Normal == Begin \/ Step \/ EvEnd \/ EvError \/ Mermaid
\* panic, timeout, unreadable line
Skip == /\ l <= Len(Trace) /\ ~ENABLED Normal /\ Say("REJECT", Ev.t, Ev.e)
        /\ l' = Trace[Ev.b].nx /\ UNCHANGED vars
TraceInit == m = M0(<<>>) /\ l = 1
TraceSpec == TraceInit /\ [][Normal \/ Skip]_<<vars, l>>
Consumed == TLCSet(1, l)
AllConsumed == TLCGet(1) = Len(Trace) + 1
=============================================================================
