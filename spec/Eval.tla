-------------------------------- MODULE Eval --------------------------------
(***************************************************************************)
(* The expression language of Sysl views (pkg/eval) as a reference         *)
(* interpreter.  A view body is a behaviour: a sequence of                 *)
(*     let v = op(args)                                                    *)
(* steps over a scope of immutable bindings; args are literals or earlier  *)
(* variables.  Values are tagged records                                   *)
(*   [k |-> "int", i], [k |-> "str", s], [k |-> "bool", b],                *)
(*   [k |-> "list", e (sequence)], [k |-> "set", e (set)],                 *)
(*   [k |-> "map", m (function from field name to value)]                  *)
(* Purity (C10): a step never changes an existing binding.                 *)
(***************************************************************************)
EXTENDS Integers, Sequences, FiniteSets, TLC

IntV(n) == [k |-> "int", i |-> n]
Str(x) == [k |-> "str", s |-> x]
Bool(x) == [k |-> "bool", b |-> x]
List(x) == [k |-> "list", e |-> x]
Set(x) == [k |-> "set", e |-> x]
Map(x) == [k |-> "map", m |-> x]

Range(s) == {s[j] : j \in DOMAIN s}

RECURSIVE Filter(_, _)
Filter(s, n) == IF s = <<>> THEN <<>>
                ELSE (IF Head(s).i > n THEN <<Head(s)>> ELSE <<>>) \o Filter(Tail(s), n)

\* de-duplicating append: a set built from a list keeps first occurrences
RECURSIVE Dedup(_, _)
Dedup(acc, s) == IF s = <<>> THEN acc
                 ELSE Dedup(IF Head(s) \in Range(acc) THEN acc ELSE Append(acc, Head(s)), Tail(s))

\* operators; a, b, c are argument values
Apply(op, a, b, c) ==
  CASE op = "lit"   -> a
    [] op = "add"   -> IntV(a.i + b.i)
    [] op = "sub"   -> IntV(a.i - b.i)
    [] op = "mul"   -> IntV(a.i * b.i)
    [] op = "div"   -> IntV(a.i \div b.i)
    [] op = "mod"   -> IntV(a.i % b.i)
    [] op = "lt"    -> Bool(a.i < b.i)
    [] op = "le"    -> Bool(a.i <= b.i)
    [] op = "gt"    -> Bool(a.i > b.i)
    [] op = "ge"    -> Bool(a.i >= b.i)
    [] op = "eq"    -> Bool(a = b)
    [] op = "ne"    -> Bool(a # b)
    [] op = "cat"   -> Str(a.s \o b.s)
    [] op = "and"   -> Bool(a.b /\ b.b)
    [] op = "or"    -> Bool(a.b \/ b.b)
    [] op = "neg"   -> IntV(0 - a.i)
    [] op = "ite"   -> IF a.b THEN b ELSE c
    [] op = "lcat"  -> List(a.e \o b.e)                       \* list concatenation keeps duplicates and order
    [] op = "union" -> Set(a.e \cup b.e)                      \* set union without duplicates
    [] op = "count" -> IntV(IF a.k = "list" THEN Len(a.e) ELSE Cardinality(a.e))
    [] op = "in"    -> Bool(IF b.k = "list" THEN a \in Range(b.e) ELSE a \in b.e)
    [] op = "notin" -> Bool(~(IF b.k = "list" THEN a \in Range(b.e) ELSE a \in b.e))
    [] op = "where" -> IF a.k = "list" THEN List(Filter(a.e, b.i)) ELSE Set({x \in a.e : x.i > b.i})
    \* transform over a list / set of ints: each element x becomes the record (y = x + n)
    [] op = "tform" -> IF a.k = "list" THEN List([j \in DOMAIN a.e |-> Map([y |-> IntV(a.e[j].i + b.i)])])
                       ELSE Set({Map([y |-> IntV(x.i + b.i)]) : x \in a.e})
    \* transform that collapses every element to the same record: a set result has one element
    [] op = "tconst" -> IF a.k = "list" THEN List([j \in DOMAIN a.e |-> Map([y |-> b])])
                        ELSE Set({Map([y |-> b]) : x \in a.e})
    \* set-typed transform with several fields per row over a list or a set: equal rows are kept once, so a list with
    \* repeated elements gives fewer rows than it has elements
    [] op = "tset"  -> Set({Map([id |-> x, twice |-> IntV(x.i * 2), tag |-> b]) :
                              x \in (IF a.k = "list" THEN Range(a.e) ELSE a.e)})
    \* a call of another view: H(a, b) evaluates `let v1 = a * 2; total = v1 + b` in a scope of its own (the callee's
    \* let is named like a variable of the caller on purpose) and yields the record of its assigned fields
    [] op = "call"  -> Map([total |-> IntV(a.i * 2 + b.i)])
    \* flattening: the strings of a list become the rows (name = w) of a set, whose names are collected again:
    \* `rows flatten(.name)` is the set of the strings, in whatever order the rows were made
    [] op = "sflat" -> Set(Range(a.e))
    \* recursive views: the recursive call sits inside an operand of !=, +, && and | respectively, so the operator is
    \* entered again while its own operands are being evaluated
    [] op = "rodd"  -> Bool(a.i % 2 = 1)                         \* Odd(n)  = if n == 0 then false else Odd(n - 1) != true
    [] op = "rsum"  -> IntV((a.i * (a.i + 1)) \div 2)             \* Sum(n)  = if n == 0 then 0 else Sum(n - 1) + n
    [] op = "rall"  -> Bool(TRUE)                                 \* All(n)  = if n == 0 then true else All(n - 1) && n > 0
    [] op = "rlist" -> List([j \in 1..(a.i + 1) |-> IntV(j - 1)]) \* Upto(n) = if n == 0 then [0] else Upto(n - 1) | [n]
    \* a record built by a transform without iteration: (a = ..., b = ..., c = ...)
    [] op = "mkmap"  -> Map([a |-> a, b |-> b, c |-> c])
    \* attribute access
    [] op = "attr"   -> a.m.b
    \* transform over a map: one row per entry in key order; the scope variable is the entry (key, value)
    [] op = "mapt"   -> List([j \in 1..3 |->
                          LET key == <<"a", "b", "c">>[j]
                          IN Map([entry |-> Map([key |-> Str(key), value |-> a.m[key]]),
                                  k |-> Str(key), w |-> IntV(a.m[key].i + b.i)])])

Kind(v) == v.k
ElemKinds(v) == IF v.k = "list" THEN {x.k : x \in Range(v.e)} ELSE IF v.k = "set" THEN {x.k : x \in v.e} ELSE {}

\* typing: which argument values an operator accepts
WellTyped(op, a, b, c) ==
  CASE op \in {"add", "sub", "mul", "lt", "le", "gt", "ge"} -> a.k = "int" /\ b.k = "int"
    [] op \in {"div", "mod"} -> a.k = "int" /\ b.k = "int" /\ a.i >= 0 /\ b.i > 0
    [] op \in {"eq", "ne"} -> a.k = b.k /\ a.k \in {"int", "str", "bool"}
    [] op = "cat" -> a.k = "str" /\ b.k = "str"
    [] op = "and" -> a.k = "bool" /\ b.k = "bool"
    [] op = "neg" -> a.k = "int"
    [] op = "ite" -> a.k = "bool" /\ b.k = c.k /\ b.k \in {"int", "str"}
    [] op = "lcat" -> a.k = "list" /\ b.k = "list" /\ Cardinality(ElemKinds(a) \cup ElemKinds(b)) <= 1
    [] op = "union" -> a.k = "set" /\ b.k = "set" /\ Cardinality(ElemKinds(a) \cup ElemKinds(b)) <= 1
    [] op = "count" -> a.k \in {"list", "set"}
    \* membership is defined for a string in a list or set of strings; filtering for sets of integers
    \* (the operator table of pkg/eval/binexprEval.go is the language here: there is no other reference)
    [] op \in {"in", "notin"} -> a.k = "str" /\ b.k \in {"list", "set"} /\ ElemKinds(b) \subseteq {"str"}
    [] op = "where" -> a.k = "set" /\ ElemKinds(a) \subseteq {"int"} /\ b.k = "int"
    [] op = "tform" -> a.k \in {"list", "set"} /\ ElemKinds(a) \subseteq {"int"} /\ b.k = "int"
    [] op = "tconst" -> a.k \in {"list", "set"} /\ ElemKinds(a) \subseteq {"int"} /\ b.k = "int"
    [] op = "call" -> a.k = "int" /\ b.k = "int"
    [] op = "sflat" -> a.k = "list" /\ a.e # <<>> /\ ElemKinds(a) \subseteq {"str"}
    [] op \in {"rodd", "rsum", "rall", "rlist"} -> a.k = "int" /\ a.i >= 0 /\ a.i <= 8
    [] op = "tset" -> a.k \in {"list", "set"} /\ ElemKinds(a) \subseteq {"int"} /\ b.k = "int"
    [] op = "mkmap" -> a.k = "int" /\ b.k = "int" /\ c.k = "int"
    [] op = "attr" -> a.k = "map" /\ DOMAIN a.m = {"a", "b", "c"}
    [] op = "mapt" -> a.k = "map" /\ DOMAIN a.m = {"a", "b", "c"} /\ b.k = "int"
    [] op = "lit" -> TRUE
    [] OTHER -> FALSE

\* a step: [v |-> name, op |-> operator, args |-> <<arg, ...>>] with arg = [ref |-> name] or [lit |-> value]
Lookup(scope, name) == scope[CHOOSE j \in DOMAIN scope : scope[j].v = name].val
ArgVal(scope, arg) == IF "ref" \in DOMAIN arg THEN Lookup(scope, arg.ref) ELSE arg.lit
Nth(args, n, scope) == IF n <= Len(args) THEN ArgVal(scope, args[n]) ELSE IntV(0)

StepOK(scope, st) ==
  /\ \A j \in DOMAIN st.args : "ref" \in DOMAIN st.args[j] => \E q \in DOMAIN scope : scope[q].v = st.args[j].ref
  /\ ~\E q \in DOMAIN scope : scope[q].v = st.v
  /\ WellTyped(st.op, Nth(st.args, 1, scope), Nth(st.args, 2, scope), Nth(st.args, 3, scope))

StepVal(scope, st) == Apply(st.op, Nth(st.args, 1, scope), Nth(st.args, 2, scope), Nth(st.args, 3, scope))

RECURSIVE RunLets(_, _)
RunLets(scope, steps) ==
  IF steps = <<>> THEN scope
  ELSE RunLets(Append(scope, [v |-> Head(steps).v, val |-> StepVal(scope, Head(steps))]), Tail(steps))
=============================================================================
