---------------------------- MODULE SeqDiagramMC ----------------------------
(* All call graphs over 2 applications x 2 endpoints with bodies from a small *)
(* table (calls anywhere, nested once, recursion, mutual recursion): the      *)
(* intended generator satisfies every clause of the diagram machine.          *)
EXTENDS SeqDiagram
CONSTANT Rich
VARIABLES eps, k
Keys == <<<<"A", "e1">>, <<"A", "e2">>, <<"B", "e1">>, <<"B", "e2">>>>
C(a, e) == [k |-> "call", app |-> a, ep |-> e, kids |-> <<>>]
O == [k |-> "other", app |-> "", ep |-> "", kids |-> <<>>]
B(kids) == [k |-> "block", app |-> "", ep |-> "", kids |-> kids]
Calls == {C(Keys[j][1], Keys[j][2]) : j \in 1..4}
Bodies == {<<O>>} \cup {<<c>> : c \in Calls} \cup {<<c, O>> : c \in Calls}
          \cup {<<B(<<c>>), c>> : c \in Calls}
          \cup (IF Rich THEN {<<B(<<c>>), d>> : c \in Calls, d \in Calls} \cup {<<c, B(<<O, d>>)>> : c \in Calls, d \in Calls} ELSE {})
Init == eps = <<>> /\ k = 1
Next == k <= 4 /\ \E b \in Bodies : eps' = Append(eps, [app |-> Keys[k][1], ep |-> Keys[k][2], stmts |-> b]) /\ k' = k + 1
Spec == Init /\ [][Next]_<<eps, k>>
\* with no blackbox and with every single other endpoint as a blackbox
DesignSatisfiesClauses == k = 5 => \A j \in 1..4 : \A cut \in {{}} \cup {{Keys[q]} : q \in (1..4) \ {j}} :
                                     IntendedClean(eps, Keys[j][1], Keys[j][2], cut)
=============================================================================
