SPECIFICATION GenSpec
CONSTANTS
  Files = {"r", "a", "b", "c"}
  Root = "r"
  Depths = {0}
  MaxImports = 3
  AliasSet = {"", "X", "Y"}
  FaultKinds = {"read"}
CHECK_DEADLOCK FALSE
