SPECIFICATION GenSpec
CONSTANTS
  MaxLines = 3
  MaxWidth = 6
CHECK_DEADLOCK FALSE
