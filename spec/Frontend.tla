------------------------------ MODULE Frontend ------------------------------
(***************************************************************************)
(* The Sysl compiler front end seen as a consumer of declaration events.   *)
(*                                                                         *)
(* A specification text is a sequence of declarations (application header, *)
(* type header, field, enum, alias, union, endpoint, REST path, method,    *)
(* statement, block header, event, subscription, mixin, annotation, file   *)
(* switch, end-of-block).  Step(st, d) is the documented meaning of one    *)
(* declaration in the scope st.scope: which facts it adds to the compiled  *)
(* model (st.model, a set of tuples of strings, vocabulary of DESIGN.md    *)
(* appendix C) and which source location it records (st.locs).  Layout     *)
(* (indent width, tabs, blank lines, comments) is not part of a            *)
(* declaration, so it cannot change the model (C03); application and type  *)
(* members are keyed by name, not by block or file, so re-opening merges   *)
(* (C04); the n-th declaration of an element appends its n-th location     *)
(* (C08).                                                                  *)
(*                                                                         *)
(* The module is used three ways: model-checked on small alphabets         *)
(* (FrontendGen: scope discipline, merge independence of block order), as  *)
(* a program generator (FrontendGen, -simulate) and as the judge of what   *)
(* the real compiler produced for a rendered program (FrontendTrace).      *)
(***************************************************************************)
EXTENDS Integers, Sequences, FiniteSets, TLC

Range(s) == {s[i] : i \in DOMAIN s}
Last(s) == s[Len(s)]
Front(s) == SubSeq(s, 1, Len(s) - 1)

-----------------------------------------------------------------------------
(* Type expressions.  A shape is                                           *)
(*   [p |-> primitive name or "", ref |-> <<app, path...>> (app "" = local),*)
(*    size |-> <<>> | <<max>> | <<min, max>> (string) | <<prec, scale>>    *)
(*    (decimal), opt |-> BOOLEAN, wrap |-> "" | "set" | "seq"]             *)
(* and TypeStr is the canonical rendering shared with the harness          *)
(* projector (internal/project.TypeStr).                                   *)

RECURSIVE JoinDots(_)
JoinDots(s) == IF Len(s) = 1 THEN s[1] ELSE s[1] \o "." \o JoinDots(Tail(s))

Base(sh) ==
  IF sh.p = "" THEN "ref:" \o (IF sh.ref[1] = "" THEN "" ELSE sh.ref[1] \o "/") \o JoinDots(Tail(sh.ref))
  ELSE CASE sh.p \in {"int", "int32", "int64"} /\ sh.size # <<>> ->
              \* a sized integer: one constraint holding the bit width (if any) and the length
              "int{" \o (IF sh.p = "int32" THEN "bits=32," ELSE IF sh.p = "int64" THEN "bits=64," ELSE "")
              \o "len=" \o (IF Len(sh.size) = 1 THEN "0.." \o ToString(sh.size[1])
                             ELSE ToString(sh.size[1]) \o ".." \o ToString(sh.size[2])) \o "}"
         [] sh.p = "int32"   -> "int{bits=32}"
         [] sh.p = "int64"   -> "int{bits=64}"
         [] sh.p = "float32" -> "float{bits=32}"
         [] sh.p = "float64" -> "float{bits=64}"
         [] sh.p = "string" /\ Len(sh.size) = 1 -> "string{len=0.." \o ToString(sh.size[1]) \o "}"
         [] sh.p = "string" /\ Len(sh.size) = 2 ->
              "string{len=" \o ToString(sh.size[1]) \o ".." \o ToString(sh.size[2]) \o "}"
         [] sh.p = "decimal" /\ Len(sh.size) = 2 ->
              "decimal{prec=" \o ToString(sh.size[1]) \o "." \o ToString(sh.size[2]) \o "}"
         [] OTHER -> sh.p

\* `?' after a collection marks the collection itself optional
TypeStr(sh) ==
  (IF sh.wrap = "" THEN Base(sh) ELSE sh.wrap \o "(" \o Base(sh) \o ")")
  \o (IF sh.opt THEN "?" ELSE "")

-----------------------------------------------------------------------------
(* State: model, locs, scope.  scope is a stack of frames                  *)
(*   [k |-> "app", app]                                                    *)
(*   [k |-> "type", app, type]           (tuple / relation / enum / union) *)
(*   [k |-> "rest", app, path (string), urlparams (seq)]                   *)
(*   [k |-> "ep", app, ep]                                                 *)
(*   [k |-> "block", app, ep, pre (path prefix string), n (children)]      *)
(* The endpoint frame doubles as the outermost statement block.            *)

EmptyState == [model |-> {}, locs |-> <<>>, scope |-> <<>>, file |-> "", stmts |-> <<>>, calls |-> {}]
\* calls: the targets <<application, endpoint>> of the call statements seen so far (for the linter, see LintWant)
\* stmts: function (as a sequence of [app, ep, n]) counting top-level statements per endpoint so
\* that a re-declared endpoint or an event fed by subscriptions keeps appending

Top(st) == Last(st.scope)
InScope(st, k) == st.scope # <<>> /\ Top(st).k = k

Push(st, fr) == [st EXCEPT !.scope = Append(@, fr)]
Pop(st) == [st EXCEPT !.scope = Front(@)]
Add(st, facts) == [st EXCEPT !.model = @ \cup facts]

\* location bookkeeping: st.locs is a sequence of [elem, pos]; the k-th entry for an
\* element is its k-th declaration
Loc(st, elem, d) == [st EXCEPT !.locs = Append(@, [elem |-> elem, pos |-> d.pos])]

\* an attribute is <<name, text>> (a string) or <<name, "[]", e1, ..., en>> (an array of strings)
RECURSIVE JoinElts(_)
JoinElts(es) == IF es = <<>> THEN "" ELSE "s\"" \o es[1] \o "\"" \o (IF Len(es) > 1 THEN "," ELSE "") \o JoinElts(Tail(es))
ArrVal(es) == "a[" \o JoinElts(es) \o "]"
AVal(a) == IF Len(a) >= 2 /\ a[2] = "[]" THEN ArrVal(SubSeq(a, 3, Len(a))) ELSE "s\"" \o a[2] \o "\""
AttrFacts(kind, key, d) ==
  {<<kind \o ".tag">> \o key \o <<d.tags[i]>> : i \in DOMAIN d.tags}
  \cup {<<kind \o ".attr">> \o key \o <<d.attrs[i][1], AVal(d.attrs[i])>> : i \in DOMAIN d.attrs}

\* number of top-level statements already in endpoint (app, ep)
StmtCount(st, app, ep) ==
  LET I == {i \in DOMAIN st.stmts : st.stmts[i].app = app /\ st.stmts[i].ep = ep}
  IN IF I = {} THEN 0 ELSE st.stmts[CHOOSE i \in I : TRUE].n

SetStmtCount(st, app, ep, n) ==
  LET I == {i \in DOMAIN st.stmts : st.stmts[i].app = app /\ st.stmts[i].ep = ep}
  IN IF I = {} THEN [st EXCEPT !.stmts = Append(@, [app |-> app, ep |-> ep, n |-> n])]
     ELSE [st EXCEPT !.stmts[CHOOSE i \in I : TRUE].n = n]

\* the statement frame on top: returns [app, ep, path of the new statement] and the updated state
NextStmt(st) ==
  LET fr == Top(st) IN
  IF fr.k = "ep"
    THEN LET n == StmtCount(st, fr.app, fr.ep) + 1
         IN [app |-> fr.app, ep |-> fr.ep, path |-> ToString(n),
             st |-> SetStmtCount([st EXCEPT !.scope[Len(st.scope)].own = @ + 1], fr.app, fr.ep, n)]
    ELSE [app |-> fr.app, ep |-> fr.ep, path |-> fr.pre \o ToString(fr.n + 1),
          st |-> [st EXCEPT !.scope[Len(st.scope)].n = @ + 1]]

StmtScope(st) == st.scope # <<>> /\ Top(st).k \in {"ep", "block", "choice"}

ParamFacts(app, ep, params) ==
  {<<"param", app, ep, ToString(i), params[i].n, TypeStr(params[i].sh)>> : i \in DOMAIN params}
  \cup UNION {{<<"param.tag", app, ep, ToString(i), params[i].tags[j]>> : j \in DOMAIN params[i].tags} : i \in DOMAIN params}

\* full path and accumulated url parameters of the REST scope
RestPath(st) == IF InScope(st, "rest") THEN Top(st).path ELSE ""
RestVars(st) == IF InScope(st, "rest") THEN Top(st).vars ELSE <<>>

RECURSIVE PartsPath(_), PartsVars(_)
PartsPath(parts) == IF parts = <<>> THEN ""
                    ELSE "/" \o (IF parts[1].var THEN "{" \o parts[1].n \o "}" ELSE parts[1].n) \o PartsPath(Tail(parts))
PartsVars(parts) == IF parts = <<>> THEN <<>>
                    ELSE (IF parts[1].var THEN <<parts[1]>> ELSE <<>>) \o PartsVars(Tail(parts))

-----------------------------------------------------------------------------
(* Well-formedness of a declaration in a scope (enabling condition)        *)
Enabled(st, d) ==
  CASE d.k = "file"   -> st.scope = <<>>
    [] d.k = "import" -> st.scope = <<>>
    [] d.k = "app"    -> st.scope = <<>>
    [] d.k = "type"   -> InScope(st, "app")
    [] d.k = "field"  -> InScope(st, "type") /\ Top(st).kind \in {"tuple", "relation"}
    [] d.k = "enumitem" -> InScope(st, "type") /\ Top(st).kind = "enum"
    [] d.k = "member" -> InScope(st, "type") /\ Top(st).kind = "union"
    [] d.k = "inplace" -> InScope(st, "type") /\ Top(st).kind \in {"tuple", "relation"}
    [] d.k = "alias"  -> InScope(st, "app")
    [] d.k = "mixin"  -> InScope(st, "app")
    [] d.k = "anno"   -> st.scope # <<>> /\ Top(st).k \in {"app", "type", "ep"}
    [] d.k = "ep"     -> InScope(st, "app")
    [] d.k = "event"  -> InScope(st, "app")
    [] d.k = "sub"    -> InScope(st, "app")
    [] d.k = "rest"   -> InScope(st, "app") \/ InScope(st, "rest")
    [] d.k = "method" -> InScope(st, "rest")
    [] d.k = "stmt"   -> StmtScope(st)
    [] d.k = "block"  -> StmtScope(st)
    [] d.k = "oneof"  -> StmtScope(st)
    [] d.k = "choice" -> InScope(st, "oneof")
    [] d.k = "end"    -> st.scope # <<>>
    [] OTHER -> FALSE

-----------------------------------------------------------------------------
(* The meaning of one declaration                                          *)

StepApp(st, d) ==
  LET s1 == Add(st, {<<"app", d.name>>}
                    \cup (IF d.long = "" THEN {} ELSE {<<"app.long", d.name, d.long>>})
                    \cup AttrFacts("app", <<d.name>>, d))
  IN Push(Loc(s1, <<"app", d.name>>, d), [k |-> "app", app |-> d.name])

\* a later block of a re-opened type that states an attribute again gives it its value (tags accumulate)
StepType(st, d) ==
  LET app == Top(st).app
      names == {d.attrs[i][1] : i \in DOMAIN d.attrs}
      s0 == [st EXCEPT !.model = {f \in @ : ~(f[1] = "type.attr" /\ f[2] = app /\ f[3] = d.name /\ f[4] \in names)}]
      s1 == Add(s0, {<<"type", app, d.name, d.kind>>} \cup AttrFacts("type", <<app, d.name>>, d))
  IN Push(Loc(s1, <<"type", app, d.name>>, d), [k |-> "type", app |-> app, type |-> d.name, kind |-> d.kind, own |-> 0])

StepField(st, d) ==
  LET fr == Top(st)
      \* a field declared again states its type in full (tags accumulate, the type is the later one)
      s0 == [st EXCEPT !.model = {f \in @ : ~(f[1] = "field" /\ f[2] = fr.app /\ f[3] = fr.type /\ f[4] = d.name)}]
      s1 == Add(s0, {<<"field", fr.app, fr.type, d.name, TypeStr(d.sh)>>}
                    \cup AttrFacts("field", <<fr.app, fr.type, d.name>>, d)
                    \cup (IF d.pk THEN {<<"pk", fr.app, fr.type, d.name>>,
                                        <<"field.tag", fr.app, fr.type, d.name, "pk">>} ELSE {}))
  IN Loc([s1 EXCEPT !.scope[Len(s1.scope)].own = @ + 1], <<"field", fr.app, fr.type, d.name>>, d)

Own(st) == [st EXCEPT !.scope[Len(st.scope)].own = @ + 1]

\* a field whose type is written in place (`f <:` followed by indented fields): the fields make a tuple named
\* <enclosing type>.<field>, and the field refers to it by the field's own name; the tuple carries no location
StepInplace(st, d) ==
  LET fr == Top(st)
      tn == fr.type \o "." \o d.name
      s0 == [st EXCEPT !.model = {f \in @ : ~(f[1] = "field" /\ f[2] = fr.app /\ f[3] = fr.type /\ f[4] = d.name)}]
      s1 == Add(s0, {<<"field", fr.app, fr.type, d.name, "ref:" \o d.name>>, <<"type", fr.app, tn, "tuple">>})
      s2 == Loc(Own(s1), <<"field", fr.app, fr.type, d.name>>, d)
  IN Push(s2, [k |-> "type", app |-> fr.app, type |-> tn, kind |-> "tuple", own |-> 0])

StepEnumItem(st, d) == Own(Add(st, {<<"enum", Top(st).app, Top(st).type, d.name, ToString(d.val)>>}))

StepMember(st, d) == Own(Add(st, {<<"union", Top(st).app, Top(st).type, TypeStr(d.sh)>>}))

StepAlias(st, d) ==
  LET app == Top(st).app
      s1 == Add(st, {<<"type", app, d.name, "alias">>, <<"alias", app, d.name, TypeStr(d.sh)>>})
  IN Loc(s1, <<"type", app, d.name>>, d)

StepMixin(st, d) == Add(st, {<<"mixin", Top(st).app, d.name>>})

StepAnno(st, d) ==
  LET fr == Top(st)
      key == CASE fr.k = "app" -> <<fr.app>> [] fr.k = "type" -> <<fr.app, fr.type>> [] OTHER -> <<fr.app, fr.ep>>
      val == IF d.arr # <<>> THEN ArrVal(d.arr) ELSE "s\"" \o d.val \o "\""
      \* the first value given to an annotation stays; every declaration records its location
      given == \E f \in st.model : f[1] = fr.k \o ".attr" /\ SubSeq(f, 2, Len(key) + 1) = key /\ f[Len(key) + 2] = d.name
      s1 == IF given THEN st ELSE Add(st, {<<fr.k \o ".attr">> \o key \o <<d.name, val>>})
  IN Loc(s1, <<fr.k \o ".attr">> \o key \o <<d.name>>, d)

StepEp(st, d) ==
  LET app == Top(st).app
      s1 == Add(st, {<<"ep", app, d.name>>} \cup ParamFacts(app, d.name, d.params)
                    \cup AttrFacts("ep", <<app, d.name>>, d)
                    \cup (IF d.long = "" THEN {} ELSE {<<"ep.long", app, d.name, d.long>>}))
  IN Push(Loc(s1, <<"ep", app, d.name>>, d), [k |-> "ep", app |-> app, ep |-> d.name, own |-> 0])

StepEvent(st, d) ==
  LET app == Top(st).app
      \* an event carries the attributes written at its own declaration, whether or not an earlier subscription has
      \* already created its endpoint
      s1 == Add(st, {<<"event", app, d.name>>} \cup AttrFacts("ep", <<app, d.name>>, d))
  IN Push(Loc(s1, <<"ep", app, d.name>>, d), [k |-> "ep", app |-> app, ep |-> d.name, own |-> 0])

\* a subscription is an endpoint "Src -> Ev" of the subscriber and a call to it,
\* appended to the publisher's event endpoint (created on demand)
StepSub(st, d) ==
  LET app == Top(st).app
      ep == d.src \o " -> " \o d.name
      n == StmtCount(st, d.src, d.name) + 1
      s1 == Add(st, {<<"sub", app, ep, d.src>>, <<"app", d.src>>, <<"event", d.src, d.name>>,
                     <<"stmt", d.src, d.name, ToString(n), "call", app \o " <- " \o ep>>}
                    \cup AttrFacts("ep", <<app, ep>>, d))
      s2 == SetStmtCount(s1, d.src, d.name, n)
      \* the injected call is located at the subscription that causes it
      s3 == Loc(Loc(s2, <<"ep", app, ep>>, d), <<"stmt", d.src, d.name, ToString(n)>>, d)
  IN Push(s3, [k |-> "ep", app |-> app, ep |-> ep, own |-> 0])

StepRest(st, d) ==
  LET fr == Top(st)
  IN Push(st, [k |-> "rest", app |-> fr.app, path |-> RestPath(st) \o PartsPath(d.parts),
               vars |-> RestVars(st) \o PartsVars(d.parts)])

StepMethod(st, d) ==
  LET fr == Top(st)
      ep == d.verb \o " " \o fr.path
      s1 == Add(st, {<<"ep", fr.app, ep>>, <<"ep.rest", fr.app, ep, d.verb, fr.path>>, <<"ep.tag", fr.app, ep, "rest">>}
                    \cup {<<"urlparam", fr.app, ep, ToString(i), fr.vars[i].n, TypeStr(fr.vars[i].sh)>> : i \in DOMAIN fr.vars}
                    \cup {<<"qparam", fr.app, ep, ToString(i), d.q[i].n, TypeStr(d.q[i].sh)>> : i \in DOMAIN d.q}
                    \cup ParamFacts(fr.app, ep, d.params)
                    \cup AttrFacts("ep", <<fr.app, ep>>, d))
  IN Push(Loc(s1, <<"ep", fr.app, ep>>, d), [k |-> "ep", app |-> fr.app, ep |-> ep, own |-> 0])

\* statements: kind/payload as the projector prints them
\* a run of `| text` lines is one action statement "| <the texts joined by spaces>"
RECURSIVE JoinSp(_)
JoinSp(ls) == IF ls = <<>> THEN "" ELSE ls[1] \o (IF Len(ls) > 1 THEN " " ELSE "") \o JoinSp(Tail(ls))
StmtKind(d) == IF d.kind = "doc" THEN "action" ELSE d.kind
StmtPayload(st, d) ==
  CASE d.kind = "action" -> d.text
    [] d.kind = "doc"    -> "| " \o JoinSp(d.lines)
    [] d.kind = "call"   -> (IF d.app = "." THEN Top(st).app ELSE d.app) \o " <- " \o d.ep
    [] d.kind = "ret"    -> d.text
    [] OTHER -> d.text

StepStmt(st, d) ==
  LET r == NextStmt(st)
      s1 == Add(r.st, {<<"stmt", r.app, r.ep, r.path, StmtKind(d), StmtPayload(st, d)>>}
                      \cup AttrFacts("stmt", <<r.app, r.ep, r.path>>, d))
      s2 == IF d.kind = "call" THEN [s1 EXCEPT !.calls = @ \cup {<<IF d.app = "." THEN Top(st).app ELSE d.app, d.ep>>}] ELSE s1
  IN Loc(s2, <<"stmt", r.app, r.ep, r.path>>, d)

\* block headers: the model kind and payload for each surface keyword
BlockKind(d) ==
  CASE d.kw \in {"if", "else if", "else"} -> "cond"
    [] d.kw \in {"until", "while"} -> "loop"
    [] d.kw = "for each" -> "foreach"
    [] OTHER -> "group"           \* "for", "alt", "loop" and free labels are groups titled by their text

BlockPayload(d) ==
  CASE d.kw = "if" -> "if " \o d.text
    [] d.kw = "else if" -> "else if " \o d.text
    [] d.kw = "else" -> "else"
    [] d.kw = "until" -> "UNTIL:" \o d.text
    [] d.kw = "while" -> "WHILE:" \o d.text
    [] d.kw = "for each" -> d.text
    [] d.kw = "label" -> d.text
    [] OTHER -> d.kw \o " " \o d.text

StepBlock(st, d) ==
  LET r == NextStmt(st)
      s1 == Add(r.st, {<<"stmt", r.app, r.ep, r.path, BlockKind(d), BlockPayload(d)>>})
  IN Push(Loc(s1, <<"stmt", r.app, r.ep, r.path>>, d),
          [k |-> "block", app |-> r.app, ep |-> r.ep, pre |-> r.path \o ".", n |-> 0])

StepOneOf(st, d) ==
  LET r == NextStmt(st)
      s1 == Add(r.st, {<<"stmt", r.app, r.ep, r.path, "alt", "">>})
  IN Push(Loc(s1, <<"stmt", r.app, r.ep, r.path>>, d),
          [k |-> "oneof", app |-> r.app, ep |-> r.ep, pre |-> r.path \o ".", n |-> 0])

StepChoice(st, d) ==
  LET fr == Top(st)
      path == fr.pre \o ToString(fr.n + 1)
      s0 == [st EXCEPT !.scope[Len(st.scope)].n = @ + 1]
      s1 == Add(s0, {<<"stmt", fr.app, fr.ep, path, "choice", d.text>>})
  IN Push(s1, [k |-> "block", app |-> fr.app, ep |-> fr.ep, pre |-> path \o ".", n |-> 0])

Step(st, d) ==
  CASE d.k = "file"   -> [st EXCEPT !.file = d.name]
    [] d.k = "import" -> Add(st, {<<"import", d.name, "">>})
    [] d.k = "app"    -> StepApp(st, d)
    [] d.k = "type"   -> StepType(st, d)
    [] d.k = "field"  -> StepField(st, d)
    [] d.k = "inplace" -> StepInplace(st, d)
    [] d.k = "enumitem" -> StepEnumItem(st, d)
    [] d.k = "member" -> StepMember(st, d)
    [] d.k = "alias"  -> StepAlias(st, d)
    [] d.k = "mixin"  -> StepMixin(st, d)
    [] d.k = "anno"   -> StepAnno(st, d)
    [] d.k = "ep"     -> StepEp(st, d)
    [] d.k = "event"  -> StepEvent(st, d)
    [] d.k = "sub"    -> StepSub(st, d)
    [] d.k = "rest"   -> StepRest(st, d)
    [] d.k = "method" -> StepMethod(st, d)
    [] d.k = "stmt"   -> StepStmt(st, d)
    [] d.k = "block"  -> StepBlock(st, d)
    [] d.k = "oneof"  -> StepOneOf(st, d)
    [] d.k = "choice" -> StepChoice(st, d)
    [] d.k = "end"    -> Pop(st)

RECURSIVE Replay(_, _)
Replay(st, ds) == IF ds = <<>> THEN st ELSE Replay(Step(st, Head(ds)), Tail(ds))

\* expected location facts: the k-th location of an element is its k-th declaration
LocFacts(st) ==
  {<<"loc">> \o st.locs[i].elem \o
     <<ToString(Cardinality({j \in 1..i : st.locs[j].elem = st.locs[i].elem})),
       st.locs[i].pos.file, ToString(st.locs[i].pos.line), ToString(st.locs[i].pos.col)>> : i \in DOMAIN st.locs}

(* Mixins copy the mixed-in application's types into the application (post-processing) *)
MixinFacts(model) ==
  UNION {{<<f[1], m[2]>> \o SubSeq(f, 3, Len(f)) :
            f \in {g \in model : g[1] \in {"type", "field", "pk", "enum", "alias", "union", "field.tag", "field.attr", "type.tag", "type.attr"}
                                 /\ g[2] = m[3]}}
         : m \in {x \in model : x[1] = "mixin"}}

(* Collectors (post-processing): the endpoint named ".. * <- *" lists endpoints (action statements) and calls; the    *)
(* tags and attributes of an entry are given to the endpoint it names, and to every call statement of the          *)
(* application, at any depth, that has the same target and endpoint.  (Values of the same attribute name from two   *)
(* sources are outside this model: the generator gives collector entries an attribute name nothing else uses.)      *)
Coll == ".. * <- *"
CollectorFacts(model) ==
  LET entries == {c \in model : c[1] = "stmt" /\ c[3] = Coll /\ c[5] \in {"action", "call"}}
      marks(c) == {a \in model : a[1] \in {"stmt.tag", "stmt.attr"} /\ a[2] = c[2] /\ a[3] = Coll /\ a[4] = c[4]}
      onEndpoint(c) ==
        IF c[5] = "action" /\ \E f \in model : f[1] \in {"ep", "event", "sub"} /\ f[2] = c[2] /\ f[3] = c[6]
          THEN {<<IF a[1] = "stmt.tag" THEN "ep.tag" ELSE "ep.attr", c[2], c[6]>> \o SubSeq(a, 5, Len(a)) : a \in marks(c)}
          ELSE {}
      onCalls(c) ==
        IF c[5] = "call"
          THEN UNION {{<<a[1], c[2], s[3], s[4]>> \o SubSeq(a, 5, Len(a)) : a \in marks(c)}
                      : s \in {t \in model : t[1] = "stmt" /\ t[2] = c[2] /\ t[3] # Coll /\ t[5] = "call" /\ t[6] = c[6]}}
          ELSE {}
  IN UNION {onEndpoint(c) \cup onCalls(c) : c \in entries}

FinalModel(st) == LET m == st.model \cup MixinFacts(st.model) IN m \cup CollectorFacts(m)

\* Beyond the listed properties: the linter (pkg/parse/linter.go) warns about exactly the calls whose target
\* application is not declared, or is declared without the called endpoint (simple endpoints; one warning kind per call)
LintWant(st) ==
  {<<"Application", c[1], c[2]>> : c \in {x \in st.calls : <<"app", x[1]>> \notin st.model}}
  \cup {<<"Endpoint", c[1], c[2]>> : c \in {x \in st.calls : <<"app", x[1]>> \in st.model /\ <<"ep", x[1], x[2]>> \notin st.model}}
=============================================================================
