------------------------------- MODULE IntsGen -------------------------------
(* Random models for the integration builder: a call relation over the        *)
(* applications, a listed / excluded / pass-through choice (pass-through      *)
(* chains and cycles included) and a view kind.                               *)
EXTENDS IntsDiagram, Randomization, Json
VARIABLE emitted
GenInit == /\ calls = {} /\ listed = {} /\ excl = {} /\ pass = {} /\ human = {} /\ hid = {} /\ final = {} /\ arrows = {}
           /\ todo = {} /\ walked = {} /\ phase = "setup" /\ emitted = FALSE
Setup == /\ phase = "setup"
         /\ calls' = RandomSubset(RandomElement(1..10), Apps \X Apps)
         /\ listed' = RandomSubset(RandomElement(1..3), Apps)
         /\ excl' = RandomSubset(RandomElement(0..2), Apps) \ listed'
         /\ pass' = RandomSubset(RandomElement(0..3), Apps)
         /\ human' = RandomSubset(RandomElement(0..1), Apps)
         /\ hid' = RandomSubset(RandomElement(0..1), Apps)
         /\ final' = listed' \ human' /\ phase' = "direct"
         /\ UNCHANGED <<arrows, todo, walked, emitted>>
Emit == /\ phase = "done" /\ ~emitted /\ emitted' = TRUE
        /\ PrintT(<<"SCN", ToJson([calls |-> calls, listed |-> listed, excl |-> excl, pass |-> pass, human |-> human, hid |-> hid,
                                   view |-> RandomElement({"plain", "clustered", "epa"}), expect |-> arrows,
                                   \* a second view of the same project, generated in the same run
                                   listed2 |-> RandomSubset(RandomElement(1..2), Apps),
                                   excl2 |-> RandomSubset(RandomElement(0..2), Apps),
                                   pass2 |-> RandomSubset(RandomElement(0..2), Apps)])>>)
        /\ UNCHANGED vars
GenNext == Setup \/ (Next /\ UNCHANGED emitted) \/ Emit
GenSpec == GenInit /\ [][GenNext]_<<vars, emitted>>
=============================================================================
