SPECIFICATION Spec
CONSTANTS
  MaxLets = 8
  Focus = "concat"
  Sample = TRUE
CHECK_DEADLOCK FALSE
