\* C05 design check: every digraph on 3 files (import lists <= 2), every interleaving, no depth limit
SPECIFICATION Spec
CONSTANTS
  Files = {"r", "a", "b"}
  Root = "r"
  Depths = {0}
  MaxImports = 2
  FaultKinds = {}
INVARIANTS TypeOK ReadOnce ReadOnlyClaimed AlwaysClean
PROPERTY Terminates
CHECK_DEADLOCK FALSE
