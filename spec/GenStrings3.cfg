SPECIFICATION Spec
CONSTANT MaxLen = 3
CHECK_DEADLOCK FALSE
