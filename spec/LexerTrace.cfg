SPECIFICATION TraceSpec
CONSTANTS
  MaxLines = 9
  MaxWidth = 40
CONSTRAINT Consumed
POSTCONDITION AllConsumed
CHECK_DEADLOCK FALSE
