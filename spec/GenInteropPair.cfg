SPECIFICATION Spec
CONSTANTS
  Mode = "pair"
  Exh = {}
  MaxTypes = 1
  MaxEps = 3
  Awkward = FALSE
INVARIANT AlwaysWellFormed
CHECK_DEADLOCK FALSE
