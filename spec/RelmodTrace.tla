----------------------------- MODULE RelmodTrace -----------------------------
EXTENDS Relmod, Json
VARIABLES l, census
Trace == ndJsonDeserialize("trace.ndjson")
Ev == Trace[l]
Is(e) == l <= Len(Trace) /\ Trace[l].e = e
Say(kind, t, what) == PrintT(<<kind, ToJson([t |-> t, l |-> l, what |-> what])>>)
Begin == Is("begin") /\ census' = (IF "census" \in DOMAIN Ev THEN Ev.census ELSE <<>>) /\ l' = l + 1
Rows == /\ Is("rows")
        /\ LET j == Judge(census, Ev.rows, Ev.again)
           IN j.bad # {} => Say("VERDICT", Ev.t, j)
        /\ l' = l + 1 /\ UNCHANGED census
\* building the relational form may be refused with an error
Refused == Is("refused") /\ l' = l + 1 /\ UNCHANGED census
Normal == Begin \/ Rows \/ Refused
Skip == /\ l <= Len(Trace) /\ ~ENABLED Normal /\ Say("REJECT", Ev.t, Ev.e) /\ l' = l + 1 /\ UNCHANGED census
TraceInit == l = 1 /\ census = <<>>
TraceSpec == TraceInit /\ [][Normal \/ Skip]_<<l, census>>
Consumed == TLCSet(1, l)
AllConsumed == TLCGet(1) = Len(Trace) + 1
=============================================================================
