---------------------------- MODULE FrontendGen ----------------------------
(* Program generator and design-level checks for Frontend.tla.             *)
(* A behaviour is a well-formed program: a sequence of declarations, each  *)
(* enabled in the scope left by its predecessors.  At the end (all scopes  *)
(* closed, budget used or Stop chosen) the program is printed as JSON.     *)
EXTENDS Frontend, Json, SequencesExt

CONSTANTS MaxDecls,     \* program length bound
          Rich,         \* TRUE: full shape tables (simulation); FALSE: small tables (exhaustive)
          Sample,       \* TRUE: one random candidate per declaration kind and step (-simulate)
          MinDecls,     \* a program is not finished before it has this many declarations
          BlockBudget,  \* a top-level block is closed after about this many declarations
          CallsOnly,    \* TRUE: programs are call graphs only (applications A, B, C with endpoints e1, e2)
          MaxNest,      \* scope depth up to which statement blocks may open (application = 1, endpoint = 2)
          TypesOnly,    \* TRUE: applications contain type declarations only (data models)
          WithPlans,    \* TRUE: also print file-partition plans for the finished program (C04)
          Inplace,      \* TRUE: tuples and tables may have fields whose type is written in place
          Collectors    \* TRUE: an application may have a collector (`.. * <- *:`) that marks endpoints and calls

VARIABLES st, prog, done
gvars == <<st, prog, done>>

Apps == IF CallsOnly THEN {"A", "B", "C"} ELSE IF Rich THEN {"A", "B", "NS :: C"} ELSE {"A", "B"}
\* application A also has a type named B, like the application next to it: `B.x` in A is then a field of the local type
\* unless application B declares a type x (the documented resolution order)
TypesOf(app) == IF ~Rich THEN {"T"} ELSE IF TypesOnly /\ app = "A" THEN {"T", "U", "M", "Z"} ELSE IF app = "A" THEN {"T", "U", "B"} ELSE IF app = "B" THEN {"W", "V"} ELSE {"X", "Y"}
FieldNames == IF Rich THEN {"a", "b", "c", "d", "e", "x"} ELSE {"a"}
EpNames == IF CallsOnly THEN {"e1", "e2"} ELSE IF Rich THEN {"Ep", "Op", "Get Thing"} ELSE {"Ep"}
\* ("..." is the placeholder statement: it says nothing and is drawn as nothing)
Texts == IF Rich THEN {"do it", "check stock", "validate the order", "done", "..."} ELSE {"do it"}
Preds == IF Rich THEN {"x > 5", "item in items", "stock is low", "a == b && c"} ELSE {"ready"}

Prims == IF Rich
  THEN {"int", "int32", "int64", "float", "float32", "float64", "decimal", "string", "bytes",
        "date", "datetime", "bool", "any", "xml"}
  ELSE {"int"}

Sizes(p) == IF ~Rich THEN {<<>>}
            ELSE IF p = "string" THEN {<<>>, <<5>>, <<2, 5>>, <<100>>}
            ELSE IF p = "decimal" THEN {<<>>, <<6, 2>>, <<12, 0>>}
            ELSE IF p \in {"int", "int32", "int64"} THEN {<<>>, <<>>, <<12>>, <<2, 9>>} ELSE {<<>>}

Wraps == IF Rich THEN {"", "set", "seq"} ELSE {""}
Opts == IF Rich THEN BOOLEAN ELSE {FALSE}

\* types declared so far in app (so that U.x style references are unambiguous)
Declared(app) == {f[3] : f \in {g \in st.model : g[1] = "type" /\ g[2] = app /\ g[4] \in {"tuple", "relation"}}}
\* A has a type named B: `B.W` written in A means application B's type W only if B declares W (otherwise it is read as
\* field W of the local type B), so such a reference is only offered once B.W has been declared
DeclaredAll(app) == {f[3] : f \in {g \in st.model : g[1] = "type" /\ g[2] = app}}
FieldsOf(app, t) == {f[4] : f \in {g \in st.model : g[1] = "field" /\ g[2] = app /\ g[3] = t}}

Refs(app) ==
  {<<"", t>> : t \in TypesOf(app)}
  \cup UNION {{<<"", t, f>> : f \in FieldsOf(app, t)} : t \in Declared(app)}
  \cup UNION {{<<o, t>> : t \in (IF app = "A" /\ o = "B" THEN DeclaredAll("B") ELSE TypesOf(IF o = "NS :: C" THEN "C" ELSE o))} : o \in Apps \ {app}}

PrimShapes == {[p |-> p, ref |-> <<>>, size |-> s, opt |-> o, wrap |-> w] :
                 p \in Prims, s \in UNION {Sizes(q) : q \in Prims}, o \in Opts, w \in Wraps}
PrimShapesOK == {sh \in PrimShapes : sh.size \in Sizes(sh.p)}
RefShapes(app) == {[p |-> "", ref |-> r, size |-> <<>>, opt |-> o, wrap |-> w] :
                     r \in (IF Rich THEN Refs(app) ELSE {<<"", "T">>}), o \in Opts, w \in Wraps}
\* wrapped two-part references and aliases of them are excluded here and covered by a dedicated
\* probe (the compiler resolves them differently from plain fields, see known findings)
Shapes(app) == IF TypesOnly THEN {s \in PrimShapesOK \cup RefShapes(app) : ~(s.wrap # "" /\ s.p = "" /\ Len(s.ref) > 2)}
               ELSE PrimShapesOK \cup RefShapes(app)

NoPos == [file |-> "", line |-> 0, col |-> 0]
D0 == [pos |-> NoPos, tags |-> <<>>, attrs |-> <<>>]

TagSets == IF Rich THEN {<<>>, <<"t1">>, <<"t1", "t2">>} ELSE {<<>>}
AttrSets == IF Rich THEN {<<>>, <<<<"owner", "me">>>>, <<<<"k", "v 1">>, <<"z", "">>>>} ELSE {<<>>}

App == st.scope[1].app
CurType == Top(st).type

Pick(S) == IF Sample /\ S # {} THEN {RandomElement(S)} ELSE S

PickN(S, n) == IF Sample /\ S # {} THEN {RandomElement(S) : i \in 1..n} ELSE S
\* sampling: one field in five is a reference to a field of a local type when there is one (uniform choice over all
\* shapes makes them rare)
FieldRefShapes(app) == {s \in RefShapes(app) : Len(s.ref) > 2 /\ s.wrap = ""}
PickShape(app) == IF Sample /\ FieldRefShapes(app) # {} /\ RandomElement(1..5) = 1 THEN {RandomElement(FieldRefShapes(app))}
                  ELSE Pick(Shapes(app))


Groups ==
  IF st.scope = <<>> THEN
    {{[k |-> "app", name |-> a, long |-> l, tags |-> t, attrs |-> at, pos |-> NoPos] :
       a \in Pick(Apps), l \in Pick(IF Rich THEN {"", "Long Name"} ELSE {""}), t \in Pick(TagSets), at \in Pick(AttrSets)}}
  ELSE LET fr == Top(st) IN
  CASE fr.k = "app" ->
       IF TypesOnly THEN
       { {[k |-> "type", name |-> t, kind |-> kd, tags |-> <<>>, attrs |-> <<>>, pos |-> NoPos] :
            t \in PickN(TypesOf(IF fr.app = "NS :: C" THEN "C" ELSE fr.app), 3), kd \in Pick({"tuple", "relation"})},
         {[k |-> "type", name |-> "E", kind |-> "enum", tags |-> <<>>, attrs |-> <<>>, pos |-> NoPos]},
         {[k |-> "alias", name |-> "Al", sh |-> sh, pos |-> NoPos] :
            sh \in Pick({s \in Shapes(fr.app) : ~(s.p = "" /\ Len(s.ref) > 2) /\ ~s.opt /\ s.size = <<>>})},
         {[k |-> "end"]} }
       ELSE IF CallsOnly THEN
       { {[k |-> "ep", name |-> e, long |-> "", params |-> <<>>, tags |-> <<>>, attrs |-> <<>>, pos |-> NoPos] : e \in PickN(EpNames, 2)},
         {[k |-> "end"]} }
       ELSE
       { {[k |-> "type", name |-> t, kind |-> kd, tags |-> tg, attrs |-> at, pos |-> NoPos] :
            t \in PickN(TypesOf(IF fr.app = "NS :: C" THEN "C" ELSE fr.app), 2), kd \in Pick({"tuple", "relation"}), tg \in Pick(TagSets),
            \* header attributes: a string, and arrays of different lengths (a later block may state them again)
            at \in Pick(IF Rich THEN {<<>>, <<>>, <<<<"owners", "[]", "alice", "bob">>>>, <<<<"owners", "[]", "dave">>>>, <<<<"owner", "ann">>>>} ELSE {<<>>})},
         {[k |-> "type", name |-> "E", kind |-> "enum", tags |-> <<>>, attrs |-> <<>>, pos |-> NoPos]},
         (IF Rich THEN {[k |-> "type", name |-> "Un", kind |-> "union", tags |-> <<>>, attrs |-> <<>>, pos |-> NoPos]} ELSE {}),
         (IF Rich THEN {[k |-> "alias", name |-> "Al", sh |-> sh, pos |-> NoPos] :
                               sh \in Pick({s \in Shapes(fr.app) : ~(s.p = "" /\ Len(s.ref) > 2) /\ ~s.opt /\ s.size = <<>>})} ELSE {}),
         \* a collector, once per application (a second one replaces the first, which no document describes)
         (IF Collectors /\ ~\E f \in st.model : f[1] = "ep" /\ f[2] = fr.app /\ f[3] = Coll
            THEN {[k |-> "ep", name |-> Coll, long |-> "", params |-> <<>>, tags |-> <<>>, attrs |-> <<>>, pos |-> NoPos]} ELSE {}),
         {[k |-> "ep", name |-> e, long |-> "", params |-> ps, tags |-> tg, attrs |-> <<>>, pos |-> NoPos] :
                 e \in Pick(EpNames), tg \in Pick(TagSets),
                 \* a parameter with no tag, with one, or with two whose written order is not the alphabetical one
                 ps \in Pick({<<>>} \cup {<<[n |-> "p", sh |-> sh, tags |-> pt]>> :
                                       sh \in Pick({s \in Shapes(fr.app) : s.wrap = "" /\ ~(s.p = "" /\ Len(s.ref) > 2)}),
                                       pt \in Pick(IF Rich THEN {<<>>, <<"body">>, <<"header", "audit">>} ELSE {<<>>})})},
         {[k |-> "rest", parts |-> ps] : ps \in {<<[var |-> FALSE, n |-> "things"]>>,
                 <<[var |-> FALSE, n |-> "a"], [var |-> TRUE, n |-> "id", sh |-> [p |-> "int", ref |-> <<>>, size |-> <<>>, opt |-> FALSE, wrap |-> ""]]>>}
                 \* a path variable whose type is a reference (to a local type or to a type of another application)
                 \cup (IF Rich THEN {<<[var |-> FALSE, n |-> "r"], [var |-> TRUE, n |-> "key", sh |-> sh]>> :
                                       sh \in Pick({x \in RefShapes(fr.app) : x.wrap = "" /\ ~x.opt /\ Len(x.ref) = 2})}
                       ELSE {})},
         (IF Rich THEN {[k |-> "event", name |-> "Ev", tags |-> tg, attrs |-> <<>>, pos |-> NoPos] : tg \in Pick(TagSets)} ELSE {}),
         (IF Rich THEN {[k |-> "sub", src |-> o, name |-> "Ev", tags |-> tg, attrs |-> <<>>, pos |-> NoPos] :
                          o \in Apps \ {fr.app}, tg \in Pick(TagSets)} ELSE {}),
         (IF Rich THEN {[k |-> "anno", name |-> "note", val |-> v[1], arr |-> v[2], pos |-> NoPos] :
                          v \in {<<"some text", <<>>>>, <<"", <<"x", "y">>>>, <<"", <<"z">>>>}} ELSE {}),
         {[k |-> "end"]} }
    [] fr.k = "type" ->
       { \* a field whose type is written in place (two levels at most)
         (IF Inplace /\ fr.kind \in {"tuple", "relation"} /\ Len(st.scope) < 4 THEN
            {[k |-> "inplace", name |-> f, pos |-> NoPos] : f \in PickN(FieldNames \ FieldsOf(fr.app, fr.type), 1)}
          ELSE {}),
         (IF fr.kind \in {"tuple", "relation"} THEN
            {[k |-> "field", name |-> f, sh |-> sh, pk |-> pk, tags |-> tg, attrs |-> at, pos |-> NoPos] :
               f \in PickN(FieldNames \ FieldsOf(fr.app, fr.type), 4), sh \in PickShape(fr.app),
               pk \in Pick(IF fr.kind = "relation" THEN BOOLEAN ELSE {FALSE}), tg \in Pick(TagSets \ {<<"t1", "t2">>}),
               at \in Pick(IF Rich THEN {<<>>, <<<<"json", "name">>>>} ELSE {<<>>})}
          ELSE IF fr.kind = "enum" THEN
            {[k |-> "enumitem", name |-> n, val |-> v] : n \in {"RED", "GREEN"}, v \in {1, 2, 70000, 2000000000}}
          ELSE {[k |-> "member", sh |-> [p |-> "", ref |-> <<"", t>>, size |-> <<>>, opt |-> FALSE, wrap |-> ""]] :
                  t \in TypesOf(IF fr.app = "NS :: C" THEN "C" ELSE fr.app)}),
         {[k |-> "end"]} }
    [] fr.k = "rest" ->
       { {[k |-> "method", verb |-> v, q |-> q, params |-> <<>>, tags |-> <<>>, attrs |-> <<>>, pos |-> NoPos] :
            v \in {"GET", "POST", "PUT", "DELETE", "PATCH"},
            q \in {<<>>, <<[n |-> "q", sh |-> [p |-> "int", ref |-> <<>>, size |-> <<>>, opt |-> FALSE, wrap |-> ""]],
                           [n |-> "r", sh |-> [p |-> "string", ref |-> <<>>, size |-> <<>>, opt |-> TRUE, wrap |-> ""]]>>}},
         (IF Len(st.scope) < 4 THEN {[k |-> "rest", parts |-> <<[var |-> FALSE, n |-> "sub"]>>]} ELSE {}),
         \* a nested block that adds a path variable of its own (named after the nesting depth, so names stay distinct)
         (IF Rich /\ Len(st.scope) < 5
            THEN {[k |-> "rest", parts |-> <<[var |-> FALSE, n |-> "in"],
                                             [var |-> TRUE, n |-> "w" \o ToString(Len(st.scope)),
                                              sh |-> [p |-> tp, ref |-> <<>>, size |-> <<>>, opt |-> FALSE, wrap |-> ""]]>>] : tp \in {"int", "string"}}
            ELSE {}),
         {[k |-> "end"]} }
    \* the entries of a collector: an endpoint of the application, or a call, with tags and the attribute `cid`
    [] fr.k = "ep" /\ fr.ep = Coll ->
       { \* an endpoint by name, a REST endpoint by method and path
         {[k |-> "stmt", kind |-> "action", text |-> e, tags |-> tg, attrs |-> <<<<"cid", "on " \o e>>>>, pos |-> NoPos] :
            e \in EpNames \cup {"GET /things", "POST /a/{id}"}, tg \in Pick(TagSets)},
         \* a call, and the call a subscriber receives from this application's event (`Sub <- Pub -> Ev`)
         {[k |-> "stmt", kind |-> "call", app |-> a, ep |-> e, text |-> "", tags |-> tg, attrs |-> <<<<"cid", "to " \o a \o " " \o e>>>>, pos |-> NoPos] :
            a \in Apps \ {fr.app}, e \in {"Ep", "Op", fr.app \o " -> Ev"}, tg \in Pick(TagSets)},
         (IF fr.own = 0 THEN {} ELSE {[k |-> "end"]}) }
    [] fr.k \in {"ep", "block"} /\ ~(fr.k = "ep" /\ fr.ep = Coll) ->
       { {[k |-> "stmt", kind |-> "action", text |-> t, tags |-> <<>>, attrs |-> <<>>, pos |-> NoPos] : t \in Texts}
         \cup {[k |-> "stmt", kind |-> "call", app |-> a, ep |-> e, text |-> "", tags |-> <<>>, attrs |-> <<>>, pos |-> NoPos] :
                 a \in (Apps \ {fr.app}) \cup {"."}, e \in (IF CallsOnly THEN EpNames ELSE {"Ep", "Op"})}
         \* a run of docstring lines (not the first statement of a REST method, where it is the endpoint's docstring,
         \* and not right after another run, which it would join)
         \cup (IF Rich /\ ~CallsOnly /\ ~(fr.k = "ep" /\ fr.own = 0 /\ \E f \in st.model : f[1] = "ep.rest" /\ f[2] = fr.app /\ f[3] = fr.ep)
                   /\ ~(prog # <<>> /\ Last(prog).k = "stmt" /\ Last(prog).kind = "doc")
               THEN {[k |-> "stmt", kind |-> "doc", lines |-> ls, text |-> "", tags |-> <<>>, attrs |-> <<>>, pos |-> NoPos] :
                       ls \in {<<"one line">>, <<"first line", "second line">>, <<"a", "b", "c">>}}
               ELSE {})
         \cup {[k |-> "stmt", kind |-> "ret", text |-> t, tags |-> <<>>, attrs |-> <<>>, pos |-> NoPos] :
                 t \in {"ok", "ok <: T", "error <: string", "ok <: sequence of T", "ok <: set of U", "ok <: sequence of string"}},
         (IF Len(st.scope) < MaxNest
                 THEN {[k |-> "block", kw |-> kw, text |-> t, pos |-> NoPos] :
                         kw \in {"if", "until", "while", "for each", "for", "alt"}, t \in Preds}
                      \cup {[k |-> "block", kw |-> "label", text |-> t, pos |-> NoPos] : t \in Texts \ {"..."}}
                      \cup (IF Rich THEN {[k |-> "oneof", pos |-> NoPos]} ELSE {})
                 ELSE {}),
         (IF Len(st.scope) < 6
                 THEN {[k |-> "block", kw |-> "else if", text |-> t, pos |-> NoPos] : t \in Preds}
                      \cup {[k |-> "block", kw |-> "else", text |-> "", pos |-> NoPos]}
                 ELSE {}),
         \* a block needs at least one statement before it can be closed
         (IF (fr.k = "block" /\ fr.n = 0) \/ (fr.k = "ep" /\ fr.own = 0) THEN {} ELSE {[k |-> "end"]}) }
    [] fr.k = "oneof" ->
       { {[k |-> "choice", text |-> t] : t \in {"case one", "case two"}},
         (IF fr.n = 0 THEN {} ELSE {[k |-> "end"]}) }
    [] OTHER -> {{[k |-> "end"]}}

\* `else' and `else if' must directly follow an if/else-if block of the same statement list
ElseOK(d) ==
  (d.k = "block" /\ d.kw \in {"else", "else if"}) =>
     /\ prog # <<>> /\ Last(prog).k = "end"
     /\ LET fr == Top(st)
            n == IF fr.k = "ep" THEN StmtCount(st, fr.app, fr.ep) ELSE fr.n
            pre == IF fr.k = "ep" THEN "" ELSE fr.pre
        IN \E f \in st.model : /\ f[1] = "stmt" /\ f[2] = fr.app /\ f[3] = fr.ep
                               /\ f[4] = pre \o ToString(n) /\ f[5] = "cond" /\ f[6] # "else"

\* an enum/union/tuple must not be left empty; events and subscriptions need statements
CloseOK(d) ==
  d.k = "end" =>
    LET fr == Top(st) IN
    /\ fr.k = "type" => fr.own > 0
    /\ fr.k = "rest" => Last(prog).k = "end"
    /\ fr.k = "app" => Last(prog).k \in {"end", "alias", "anno"}

\* Re-declaration rules of the generator: tuples and tables may be re-opened (their fields merge);
\* an enum, a union, an alias, an event, a subscription, a REST method and an endpoint with
\* parameters are declared once (the documentation promises no merge for their parts)
Has(kind, app, name) == \E f \in st.model : f[1] = kind /\ f[2] = app /\ f[3] = name

AppStartOf(p) == LET I == {i \in DOMAIN p : p[i].k = "app"} IN IF I = {} THEN 0 ELSE CHOOSE i \in I : \A j \in I : j <= i
Fresh(d) ==
  LET app == Top(st).app IN
  CASE d.k = "type" ->
         (~\E f \in st.model : f[1] = "type" /\ f[2] = app /\ f[3] = d.name /\ f[4] # d.kind)
         /\ (d.kind \in {"enum", "union"} => ~Has("type", app, d.name))
    [] d.k = "alias" -> ~Has("type", app, d.name)
    [] d.k = "enumitem" ->
         ~\E f \in st.model : f[1] = "enum" /\ f[2] = app /\ f[3] = Top(st).type
                                /\ (f[4] = d.name \/ f[5] = ToString(d.val))
    [] d.k = "member" -> <<"union", app, Top(st).type, TypeStr(d.sh)>> \notin st.model
    \* an annotation may be stated again in a later block of the application (the first value stays)
    [] d.k = "anno" -> ~\E i \in DOMAIN prog : i > AppStartOf(prog) /\ prog[i].k = "anno" /\ prog[i].name = d.name
    [] d.k = "ep" -> (~Has("param", app, d.name)) /\ (CallsOnly => ~Has("ep", app, d.name))
                     /\ ((d.params # <<>> \/ d.tags # <<>>) => ~Has("ep", app, d.name))
    [] d.k = "event" -> ~\E i \in DOMAIN st.locs : st.locs[i].elem = <<"ep", app, d.name>>
    [] d.k = "sub" -> ~Has("sub", app, d.src \o " -> " \o d.name)
    [] d.k = "method" -> ~Has("ep", app, d.verb \o " " \o Top(st).path)
    [] OTHER -> TRUE

\* the current top-level block started at the last application header
AppStart == LET I == {i \in DOMAIN prog : prog[i].k = "app"} IN IF I = {} THEN 0 ELSE CHOOSE i \in I : \A j \in I : j <= i
Over == Len(prog) >= MaxDecls \/ (st.scope # <<>> /\ Len(prog) - AppStart >= BlockBudget)

OK(d) == /\ Enabled(st, d) /\ ElseOK(d) /\ CloseOK(d) /\ Fresh(d)
         \* past the budget only what is needed to close the open scopes is allowed
         /\ (Over =>
               \/ d.k = "end"
               \/ d.k = "stmt" /\ d.kind = "action" /\ ((Top(st).k = "ep" /\ Top(st).own = 0) \/ (Top(st).k = "block" /\ Top(st).n = 0))
               \/ d.k \in {"field", "enumitem", "member"} /\ Top(st).own = 0
               \/ d.k = "method" /\ Last(prog).k = "rest"
               \/ d.k = "choice" /\ Top(st).n = 0)

\* Sample: one random candidate per declaration kind (balanced random programs in -simulate);
\* otherwise every candidate (exhaustive model checking)
Candidates ==
  LET gs == {{d \in g : OK(d)} : g \in Groups}
  IN IF Sample THEN {RandomElement(g) : g \in {h \in gs : h # {}}} ELSE UNION gs

RECURSIVE Blocks(_, _, _)
Blocks(ds, cur, depth) ==
  IF ds = <<>> THEN (IF cur = <<>> THEN <<>> ELSE <<cur>>)
  ELSE LET d == Head(ds)
           nd == IF d.k = "end" THEN depth - 1
                 ELSE IF d.k \in {"app", "type", "inplace", "ep", "event", "sub", "rest", "method", "block", "oneof", "choice"}
                        THEN depth + 1 ELSE depth
       IN IF nd = 0 THEN <<Append(cur, d)>> \o Blocks(Tail(ds), <<>>, 0)
          ELSE Blocks(Tail(ds), Append(cur, d), nd)

RECURSIVE Flatten(_)
Flatten(bs) == IF bs = <<>> THEN <<>> ELSE Head(bs) \o Flatten(Tail(bs))

\* statement lists a block appends to: (app, endpoint) pairs incl. event endpoints fed by subscriptions
\* ... and the attributes whose value depends on which block states them first or last (an annotation of the
\* application: the first value stays; a header attribute of a type: the later value is the type's)
Touches(b) == {<<f[2], f[3]>> : f \in {g \in Replay(EmptyState, b).model : g[1] = "stmt"}}
              \cup {<<f[1], f[2], f[3]>> : f \in {g \in Replay(EmptyState, b).model : g[1] = "app.attr"}}
              \cup {<<f[1], f[2], f[3], f[4]>> : f \in {g \in Replay(EmptyState, b).model : g[1] = "type.attr"}}
Commute(b1, b2) == Touches(b1) \cap Touches(b2) = {}


\* C04: assignments of the top-level blocks to up to four files, 0 being the root, in an import graph.  The compiler
\* walks the files in depth-first pre-order of the import statements, each file once (FileOrder), so the effective
\* block order is by position in that order; blocks that append to the same statement list must keep their
\* relative order (everything else merges by name).
\* an import graph is a sequence indexed by file + 1 of the files each one imports, in the order written
Graphs(n) ==
  IF n = 1 THEN {<< <<>> >>}
  ELSE IF n = 2 THEN {<< <<1>>, <<>> >>, << <<1>>, <<0>> >>}
  ELSE IF n = 3 THEN {<< <<1, 2>>, <<>>, <<>> >>,          \* star
                      << <<1>>, <<2>>, <<>> >>,            \* chain
                      << <<2, 1>>, <<>>, <<>> >>,          \* star, imports written in the other order
                      << <<1, 2>>, <<2>>, <<0>> >>}        \* a file reached twice, and a cycle back to the root
  ELSE {<< <<1, 2, 3>>, <<>>, <<>>, <<>> >>,               \* star
        << <<1>>, <<2>>, <<3>>, <<>> >>,                   \* chain
        << <<1, 3>>, <<2>>, <<>>, <<>> >>,                 \* a nested import before a later sibling
        << <<1, 2>>, <<3>>, <<3>>, <<>> >>,                \* diamond
        << <<3, 1>>, <<2>>, <<3>>, <<>> >>,                \* written out of index order, one file reached twice
        << <<1>>, <<2, 3>>, <<>>, <<1>> >>}                \* fork below the root, with a cycle
RECURSIVE Visit(_, _, _)
Visit(g, todo, acc) ==
  IF todo = <<>> THEN acc
  ELSE LET f == Head(todo) IN
       IF \E i \in DOMAIN acc : acc[i] = f THEN Visit(g, Tail(todo), acc)
       ELSE Visit(g, g[f + 1] \o Tail(todo), Append(acc, f))
FileOrder(g) == Visit(g, <<0>>, <<>>)
PosIn(order, f) == CHOOSE i \in DOMAIN order : order[i] = f

OrderOK(bs, files, order) ==
  \A i, j \in DOMAIN bs : (i < j /\ ~Commute(bs[i], bs[j])) => PosIn(order, files[i]) <= PosIn(order, files[j])
\* a random assignment, its files renumbered 0..n-1 (0 is the root whether or not it holds a block), in a random graph
PlansOf(bs, p) ==
  LET used == {p[i] : i \in DOMAIN p} \cup {0}
      rank(f) == Cardinality({g \in used : g < f})
      files == [i \in DOMAIN p |-> rank(p[i])]
  IN {[files |-> files, imports |-> g, order |-> FileOrder(g)] : g \in {RandomElement(Graphs(Cardinality(used)))}}
Plans ==
  IF ~WithPlans THEN <<>>
  ELSE LET bs == Blocks(prog, <<>>, 0)
           F == [DOMAIN bs -> 0..3]
           cand == UNION {PlansOf(bs, RandomElement(F)) : k \in 1..8}
       IN SetToSeq({pl \in cand : OrderOK(bs, pl.files, pl.order)})

GenInit == st = EmptyState /\ prog = <<>> /\ done = FALSE


GenNext ==
  /\ ~done
  /\ \/ /\ Len(prog) < MaxDecls \/ st.scope # <<>>
        /\ \E d \in Candidates :
             /\ st' = Step(st, d)
             /\ prog' = Append(prog, d)
             /\ done' = FALSE
     \/ /\ st.scope = <<>> /\ prog # <<>> /\ Len(prog) >= MinDecls
        /\ PrintT(<<"SCN", ToJson([decls |-> prog, plans |-> Plans])>>)
        /\ done' = TRUE /\ UNCHANGED <<st, prog>>

GenSpec == GenInit /\ [][GenNext]_gvars

-----------------------------------------------------------------------------
(* Design-level checks *)
ScopeWellFormed ==
  \A i \in DOMAIN st.scope :
     /\ st.scope[i].k \in {"app", "type", "rest", "ep", "block", "oneof"}
     /\ (i = 1) = (st.scope[i].k = "app")
     /\ st.scope[i].k \in {"block", "oneof"} => i > 1 /\ st.scope[i - 1].k \in {"ep", "block", "oneof"}

\* replaying the program from scratch gives the same state (Step is a function of the text)
ReplayAgrees == Replay(EmptyState, prog).model = st.model

\* C04 at design level: the top-level blocks of a finished program can be re-ordered freely as
\* long as blocks that append to the same statement list keep their relative order
MergeIndependent ==
  done =>
    LET bs == Blocks(prog, <<>>, 0) IN
    \A i \in 1..(Len(bs) - 1) :
      Commute(bs[i], bs[i + 1]) =>
        LET sw == [j \in DOMAIN bs |-> IF j = i THEN bs[i + 1] ELSE IF j = i + 1 THEN bs[i] ELSE bs[j]]
        IN Replay(EmptyState, Flatten(sw)).model = st.model
=============================================================================
