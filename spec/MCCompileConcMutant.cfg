\* non-vacuity: without the delete the invariants fail (TLC is expected to report a violation)
SPECIFICATION Spec
CONSTANTS
  Procs = {"p1", "p2", "p3"}
  Addrs = {"a1", "a2"}
  DeleteAtEnd = FALSE
INVARIANTS NeverStale EmptyAtQuiescence
CHECK_DEADLOCK FALSE
