SPECIFICATION Spec
INVARIANT Clean
PROPERTY Terminates
CHECK_DEADLOCK FALSE
