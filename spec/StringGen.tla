------------------------------ MODULE StringGen ------------------------------
(* All strings over a small alphabet of troublesome characters up to a length, *)
(* plus key-like shapes (@ stands for a non-ASCII letter), for attribute values of serialised models (C09).      *)
EXTENDS Integers, Sequences, TLC, Json
CONSTANT MaxLen
VARIABLE s, n
Alphabet == {"\"", "\\", "\n", "\t", ":", " ", "@", "{", "a", ",", "["}
Shapes == {"\"x\": ", "\": \"", "\"k\":  \"v\"", "a\":  b", "{\"a\":  1}", "\\\":  ", "}\n{", "  \"a\":  ", "a, {b} or [c, [d]]", "tail, ", "x,  \"y\""}
Init == s = "" /\ n = 0
Next == \/ n < MaxLen /\ \E c \in Alphabet : s' = s \o c /\ n' = n + 1
        \/ n = 0 /\ \E x \in Shapes : s' = x /\ n' = MaxLen + 1
        \/ n > 0 /\ n <= MaxLen + 1 /\ PrintT(<<"SCN", ToJson([s |-> s])>>) /\ s' = s /\ n' = MaxLen + 2
Spec == Init /\ [][Next]_<<s, n>>
=============================================================================
