------------------------------ MODULE WildGen ------------------------------
(* Enumerates grammar-accepted but semantically odd constructs (C01): every  *)
(* type position x primitive x size form x wrapper x optionality, names with  *)
(* %-escapes in every name position, and near-miss corruptions (operation x   *)
(* relative position), and rings of declarations that refer to one another    *)
(* (mixins, aliases, unions, fields, calls, subscriptions, view calls, foreign *)
(* keys), and one attribute reaching one element from two sources with values *)
(* of different kinds.  One construct is varied at a time; the harness puts it into a      *)
(* minimal program.                                                           *)
EXTENDS Integers, Sequences, TLC, Json

VARIABLES phase
vars == <<phase>>

TypePositions == {"field", "tablefield", "param", "alias", "union", "restvar", "query", "ret", "viewparam", "inplace"}
Prims == {"int", "int32", "int64", "float", "float32", "float64", "decimal", "string", "bytes", "date",
          "datetime", "bool", "any", "T", "Other.T", "T.f"}
SizeForms == {"", "(5)", "(0)", "(5.2)", "(5..)", "(2..5)", "(5..2)", "(99999999999999999999)",
              "(5.99999999999999999999)", "(99999999999999999999..)", "(1..99999999999999999999)"}
Wraps == {"", "set of ", "sequence of "}
Opts == {"", "?"}

NamePositions == {"app", "type", "field", "ep", "callapp", "callep", "event", "subsrc", "subev", "mixin",
                  "enumitem", "annoname", "attrvalue", "import", "refapp", "param", "restpart", "queryname",
                  "action", "rettext", "cond", "grouplabel", "longname", "tag"}
Names == {"My%20Name", "Bad%zzName", "Pct%", "%2", "a%25b", "%", "%%", "x%0", "N%C3%A9", "a%2Fb", "%20",
          "int", "if", "else", "return", "loop", "set of", "a.b", "a :: b", "..."}

Ops == {"dropline", "dupline", "swaplines", "truncline", "truncbyte", "indentmore", "indentless",
        "strayNUL", "strayFF", "strayCR", "dropcolon", "tabify", "dropchar", "dupchar"}

\* rings: n declarations that refer to one another in a cycle (n = 1 is a self-reference), for every relation a
\* declaration can have to another one; "files" spreads the ring over n imported files
RingRels == {"mixin", "alias", "aliasseq", "union", "field", "fieldseq", "call", "subscribe", "viewcall", "tablefk"}
RingSizes == 1..4

\* one attribute given to one element by two sources, with a value of a different kind on each side: where a
\* declaration can be attributed twice (a collector statement, a re-declaration, an annotation beside an attribute,
\* a nested REST block, an event and its subscriber) x the attribute (a plain one, or `patterns`, which `~x` writes)
\* x the kind of value on each side
MergePositions == {"collector-ep", "collector-call", "collector-rest", "collector-pubsub", "app-again", "ep-again",
                   "type-again", "rest-again", "annotation", "rest-nested", "event-sub", "view-again", "mixin"}
MergeNames == {"owner", "patterns"}
ValueKinds == {"string", "list", "empty", "nested", "modifier", "multiline", "none"}

\* near-misses of an import statement, in the root or in an imported file, as the first line, after another import, or
\* as the last bytes of the file (no newline); the line scan that collects imports runs before the parser proper
ImportLines == {"import", "import ", "import\t", "import\tdep2", "import  dep2", "importer:", " import dep2", "import dep2 as",
                "import dep2 ~", "import //", "import @", "import dep2@", "import \"dep2\"", "import dep2 dep3", "IMPORT dep2", "import.dep2"}
ImportWhere == {"root", "imported"}
ImportPlace == {"first", "second", "lastbytes"}

\* a collector entry for a call and a call statement with the same endpoint name, the two target applications being
\* the same, different, or one a leading part of the other (Bank, Bank :: Accounts, Bank :: Accounts :: Ledger)
NestedApps == {"Bank", "Bank :: Accounts", "Bank :: Accounts :: Ledger", "Other"}

Init == phase = 0
Next ==
  \/ /\ phase = 0 /\ phase' = 1
     /\ \A pos \in TypePositions, p \in Prims, s \in SizeForms, w \in Wraps, o \in Opts :
          PrintT(<<"SCN", ToJson([kind |-> "type", pos |-> pos, text |-> w \o p \o s \o o])>>)
  \/ /\ phase = 1 /\ phase' = 2
     /\ \A pos \in NamePositions, n \in Names :
          PrintT(<<"SCN", ToJson([kind |-> "name", pos |-> pos, text |-> n])>>)
  \/ /\ phase = 2 /\ phase' = 3
     /\ \A op \in Ops, at \in 0..19 :
          PrintT(<<"SCN", ToJson([kind |-> "corrupt", op |-> op, at |-> at])>>)
  \/ /\ phase = 3 /\ phase' = 4
     /\ \A r \in RingRels, n \in RingSizes, f \in BOOLEAN :
          PrintT(<<"SCN", ToJson([kind |-> "ring", rel |-> r, n |-> n, files |-> f])>>)
  \/ /\ phase = 4 /\ phase' = 5
     /\ \A pos \in MergePositions, n \in MergeNames, a \in ValueKinds, b \in ValueKinds :
          PrintT(<<"SCN", ToJson([kind |-> "attrmerge", pos |-> pos, name |-> n, first |-> a, second |-> b])>>)
  \/ /\ phase = 5 /\ phase' = 6
     /\ \A ln \in ImportLines, w \in ImportWhere, pl \in ImportPlace :
          PrintT(<<"SCN", ToJson([kind |-> "importline", line |-> ln, where |-> w, place |-> pl])>>)
  \/ /\ phase = 6 /\ phase' = 7
     /\ \A e \in NestedApps, c \in NestedApps, own \in NestedApps :
          PrintT(<<"SCN", ToJson([kind |-> "collectortarget", entry |-> e, call |-> c, owner |-> own])>>)
Spec == Init /\ [][Next]_vars
=============================================================================
