SPECIFICATION GenSpec
CONSTANTS
  Segs = {"", ".", "..", "a", "b.c", "d e", "ab", "..a"}
  MaxLen = 5
  RootSet <- GenRoots
CHECK_DEADLOCK FALSE
