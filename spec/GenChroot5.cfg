SPECIFICATION GenSpec
CONSTANTS
  Segs = {"", ".", "..", "a", "b.c", "d e"}
  MaxLen = 5
  RootSet <- GenRoots
CHECK_DEADLOCK FALSE
