SPECIFICATION Spec
CONSTANTS
  Procs = {"p1", "p2", "p3"}
  Addrs = {"a1", "a2"}
  DeleteAtEnd = TRUE
INVARIANTS NoSharedKey NeverStale EmptyAtQuiescence
CHECK_DEADLOCK FALSE
