SPECIFICATION Spec
CONSTANTS
  Mode = "random"
  Exh = {}
  MaxTypes = 3
  MaxEps = 4
  Awkward = TRUE
INVARIANT AlwaysWellFormed
CHECK_DEADLOCK FALSE
