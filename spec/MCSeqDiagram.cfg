SPECIFICATION Spec
CONSTANT Rich = TRUE
INVARIANT DesignSatisfiesClauses
CHECK_DEADLOCK FALSE
