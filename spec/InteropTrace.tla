---------------------------- MODULE InteropTrace ----------------------------
(* Replays the pipeline runs recorded by the interop driver (harness/cmd/vh/interop.go)  *)
(* through the stage machine of Interop.tla: the expected facts are computed here from   *)
(* the abstract document; the driver only reports what the real importer / exporter /    *)
(* compiler produced.                                                                    *)
EXTENDS Interop, Json
VARIABLES l
Trace == ndJsonDeserialize("trace.ndjson")
Ev == Trace[l]
Is(e) == l <= Len(Trace) /\ Trace[l].e = e
Say(kind, t, what) == PrintT(<<kind, ToJson([t |-> t, l |-> l, what |-> what])>>)
Adv == l' = l + 1
Report == (l > 1 /\ bad # {}) => Say("VERDICT", Trace[l - 1].t, bad)

Flag(name, ok) ==
  IF dir = "import"
  THEN CASE name = "render" -> "RenderFails"
         [] name = "import" -> "ImportFails"
         [] name = "compile" -> "OutputDoesNotCompile"
         [] name = "observe" -> IF ok THEN "Incomplete" ELSE "NoApplication"
         [] name = "again" -> "NotRepeatable"
         [] OTHER -> "UnknownStage"
  ELSE CASE name = "compile" -> "SourceDoesNotCompile"
         [] name = "export" -> "ExportFails"
         [] name = "validate" -> "Malformed"
         [] name = "read" -> IF ok THEN "DocumentIncomplete" ELSE "DocumentUnreadable"
         [] name = "importback" -> IF ok THEN "RoundTripIncomplete" ELSE "ImportBackFails"
         [] OTHER -> "UnknownStage"

SetOf(s) == {s[i] : i \in DOMAIN s}

Begin == Is("begin") /\ Report /\ Start(Ev.doc, Ev.fmt, Ev.dir) /\ Adv
StagePlain == /\ Is("stage") /\ ~("facts" \in DOMAIN Ev /\ Ev.ok)
              /\ Step(Ev.name, Ev.ok, Flag(Ev.name, FALSE)) /\ Adv
StageFacts == /\ Is("stage") /\ "facts" \in DOMAIN Ev /\ Ev.ok
              /\ Observe(Ev.name, SetOf(Ev.facts), Flag(Ev.name, TRUE))
              /\ (Missing(Ev.name, SetOf(Ev.facts)) # {} => Say("DIFF", Ev.t, [stage |-> Ev.name, missing |-> Missing(Ev.name, SetOf(Ev.facts))]))
              /\ Adv
\* an event out of stage order is a harness or specification error, never a verdict about the code
EvWritten == Is("written") /\ Written(Ev.ok, Ev.same) /\ Adv
Normal == Begin \/ StagePlain \/ StageFacts \/ EvWritten
Other == Is("note") \/ Is("unjudged") \/ Is("fatal")
Skip == l <= Len(Trace) /\ ((Other /\ UNCHANGED vars /\ Adv) \/ (~Other /\ ~ENABLED Normal /\ Say("REJECT", Ev.t, Ev.e) /\ UNCHANGED vars /\ Adv))
End == l = Len(Trace) + 1 /\ Report /\ UNCHANGED vars /\ l' = l + 1
Next == Normal \/ Skip \/ End
TraceSpec == Init /\ l = 1 /\ [][Next]_<<vars, l>>
Consumed == TLCSet(1, l)
AllConsumed == TLCGet(1) >= Len(Trace) + 1
=============================================================================
