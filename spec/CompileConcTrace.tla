--------------------------- MODULE CompileConcTrace ---------------------------
(* Concurrent compilations judged by Determinism.tla (every result equals the   *)
(* first, sequential observation of that source) and by the quiescence clause   *)
(* of CompileConc.tla (no lexer state is left in the global map).               *)
EXTENDS Determinism, Json
VARIABLES l
Trace == ndJsonDeserialize("trace.ndjson")
Ev == Trace[l]
Is(e) == l <= Len(Trace) /\ Trace[l].e = e
Say(kind, t, what) == PrintT(<<kind, ToJson([t |-> t, l |-> l, what |-> what])>>)
Begin == Is("begin") /\ seen' = <<>> /\ bad' = {} /\ l' = l + 1
Gen == /\ Is("gen")
       /\ LET key == <<Ev.g, Ev.input>> IN
          /\ Observe(key, Ev.digest)
          /\ (key \in DOMAIN seen /\ seen[key] # Ev.digest) =>
                Say("VERDICT", Ev.t, [what |-> "ConcurrentResultDiffers", g |-> Ev.g, input |-> Ev.input, wave |-> Ev.pid])
       /\ l' = l + 1
Quiescent == /\ Is("quiescent")
             /\ (Ev.lexerstates # 0) => Say("VERDICT", Ev.t, [what |-> "LexerStateLeftBehind", g |-> "", input |-> Ev.lexerstates, wave |-> Ev.wave])
             /\ l' = l + 1 /\ UNCHANGED vars
Normal == Begin \/ Gen \/ Quiescent
\* a crash of a compile that succeeds sequentially, or a data race report
Skip == /\ l <= Len(Trace) /\ ~ENABLED Normal /\ Say("REJECT", Ev.t, Ev.e) /\ l' = l + 1 /\ UNCHANGED vars
TraceInit == Init /\ l = 1
TraceSpec == TraceInit /\ [][Normal \/ Skip]_<<vars, l>>
Consumed == TLCSet(1, l)
AllConsumed == TLCGet(1) = Len(Trace) + 1
=============================================================================
