SPECIFICATION Spec
CONSTANTS
  MaxLets = 7
  Focus = "all"
  Sample = TRUE
CHECK_DEADLOCK FALSE
