SPECIFICATION Spec
CONSTANTS
  Mode = "random"
  Exh = {}
  MaxTypes = 4
  MaxEps = 6
  Awkward = FALSE
INVARIANT AlwaysWellFormed
CHECK_DEADLOCK FALSE
