SPECIFICATION TraceSpec
CONSTRAINT Consumed
POSTCONDITION AllConsumed
CHECK_DEADLOCK FALSE
