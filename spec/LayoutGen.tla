------------------------------ MODULE LayoutGen ------------------------------
(* Compositions of the layout transformations of C03: a composition is a      *)
(* behaviour choosing one option per transformation.                           *)
EXTENDS Integers, Sequences, TLC, Json
VARIABLES scale, tabs, blank, comment, step
vars == <<scale, tabs, blank, comment, step>>
Init == scale = 1 /\ tabs = FALSE /\ blank = "none" /\ comment = "none" /\ step = 0
Next == \/ step = 0 /\ \E k \in 1..4 : scale' = k /\ step' = 1 /\ UNCHANGED <<tabs, blank, comment>>
        \/ step = 1 /\ \E b \in BOOLEAN : tabs' = b /\ step' = 2 /\ UNCHANGED <<scale, blank, comment>>
        \/ step = 2 /\ \E b \in {"none", "some", "all"} : blank' = b /\ step' = 3 /\ UNCHANGED <<scale, tabs, comment>>
        \/ step = 3 /\ \E c \in {"none", "col0", "indented", "mixed"} : comment' = c /\ step' = 4 /\ UNCHANGED <<scale, tabs, blank>>
        \/ step = 4 /\ PrintT(<<"SCN", ToJson([scale |-> scale, tabs |-> tabs, blank |-> blank, comment |-> comment])>>)
                    /\ step' = 5 /\ UNCHANGED <<scale, tabs, blank, comment>>
Spec == Init /\ [][Next]_vars
=============================================================================
