SPECIFICATION TraceSpec
CONSTANTS
  Apps = {"A", "B", "C", "D", "E"}
  MaxMarked = 2
CONSTRAINT Consumed
POSTCONDITION AllConsumed
CHECK_DEADLOCK FALSE
