SPECIFICATION TraceSpec
CONSTANT Apps = {"A", "B", "C", "D", "E"}
CONSTRAINT Consumed
POSTCONDITION AllConsumed
CHECK_DEADLOCK FALSE
