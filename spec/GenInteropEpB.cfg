SPECIFICATION Spec
CONSTANTS
  Mode = "ep"
  Exh = {"method", "body", "resp"}
  MaxTypes = 1
  MaxEps = 1
  Awkward = FALSE
INVARIANT AlwaysWellFormed
CHECK_DEADLOCK FALSE
