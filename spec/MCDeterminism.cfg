SPECIFICATION SpecAny
CONSTANTS
  Keys = {"k1", "k2"}
  Digests = {"d1", "d2"}
INVARIANT FlaggedIffDisagreed
CHECK_DEADLOCK FALSE
