---------------------------- MODULE CommandTrace ----------------------------
(* Judges recorded runs (in-process compiles and CLI processes) against      *)
(* Command.tla: start, then ok{output} or error{status, message}; panic,     *)
(* fatal, timeout and killed events have no action.                          *)
EXTENDS Command, Json
VARIABLES l
Trace == ndJsonDeserialize("trace.ndjson")
Ev == Trace[l]
Is(e) == l <= Len(Trace) /\ Trace[l].e = e
Say(kind, t, what) == PrintT(<<kind, ToJson([t |-> t, l |-> l, what |-> what])>>)

\* a start after a finished run composes Reset with Start
EvStart == /\ Is("start") /\ phase \in {"idle", "done"}
           /\ phase' = "running" /\ result' = NoResult /\ l' = l + 1
EvOk == /\ Is("ok") /\ Succeed /\ l' = l + 1
        /\ (~Ev.output) => Say("VERDICT", Ev.t, {"NoOutput"})
EvError == /\ Is("error") /\ phase = "running" /\ phase' = "done"
           /\ result' = [kind |-> "error", status |-> Ev.status, output |-> FALSE, message |-> Ev.message]
           /\ l' = l + 1
           /\ (Ev.status = 0 \/ ~Ev.message) => Say("VERDICT", Ev.t, {"ErrorWithoutStatusOrMessage"})
Normal == EvStart \/ EvOk \/ EvError

\* anything else (panic, fatal, timeout, killed, or an outcome without a start) is unexplained
Skip == /\ l <= Len(Trace) /\ ~ENABLED Normal
        /\ Say("REJECT", Ev.t, Ev.e)
        /\ l' = l + 1 /\ phase' = "idle" /\ result' = NoResult

TraceInit == Init /\ l = 1
TraceSpec == TraceInit /\ [][Normal \/ Skip]_<<vars, l>>
Consumed == TLCSet(1, l)
AllConsumed == TLCGet(1) = Len(Trace) + 1
=============================================================================
