----------------------------- MODULE LexerTrace -----------------------------
(* The structural token stream of the real lexer must equal Tokens(lines).   *)
EXTENDS Lexer, Json
VARIABLES l
Trace == ndJsonDeserialize("trace.ndjson")
Ev == Trace[l]
Say(kind, t, what) == PrintT(<<kind, ToJson([t |-> t, l |-> l, what |-> what])>>)
EvLex == /\ l <= Len(Trace) /\ Ev.e = "lex"
         /\ LET want == Tokens(Ev.lines)
            IN (Ev.toks # want \/ "panic" \in DOMAIN Ev) => Say("VERDICT", Ev.t, {"TokenStream"})
         /\ l' = l + 1 /\ UNCHANGED text
TraceInit == text = <<>> /\ l = 1
TraceSpec == TraceInit /\ [][EvLex]_<<text, l>>
Consumed == TLCSet(1, l)
AllConsumed == TLCGet(1) = Len(Trace) + 1
=============================================================================
