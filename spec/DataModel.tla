------------------------------ MODULE DataModel ------------------------------
(***************************************************************************)
(* Data-model diagrams (pkg/datamodeldiagram): for one application, the    *)
(* diagram must declare exactly one class per table, tuple, primitive      *)
(* alias and enum, list every field of each table and tuple, and draw      *)
(* exactly one relationship line per field that refers (directly or        *)
(* through a set / sequence / list) to another drawn type.                 *)
(*                                                                         *)
(* The type graph is a set of types [label, kind] and a sequence of fields *)
(* [class, name, target] (target = label of the referred type or "").      *)
(* The machine consumes the diagram's class / field / edge lines.          *)
(***************************************************************************)
EXTENDS Integers, Sequences, FiniteSets, TLC

DrawnKinds == {"tuple", "relation", "enum", "alias"}

Range(s) == {s[i] : i \in DOMAIN s}
Count(s, x) == Cardinality({i \in DOMAIN s : s[i] = x})

\* expectations from the type graph
WantClasses(types) == {t[1] : t \in {u \in Range(types) : u[2] \in DrawnKinds}}
WantFields(types, fields) ==
  {<<f[1], f[2]>> : f \in {g \in Range(fields) : \E t \in Range(types) : t[1] = g[1] /\ t[2] \in {"tuple", "relation"}}}
\* one relationship per referring field whose target is drawn in this diagram
WantEdges(types, fields) ==
  [i \in {j \in DOMAIN fields : fields[j][3] \in WantClasses(types)} |-> <<fields[i][1], fields[i][3]>>]
WantEdgeCount(types, fields, e) ==
  Cardinality({i \in DOMAIN fields : fields[i][3] \in WantClasses(types) /\ <<fields[i][1], fields[i][3]>> = e})

\* the type a field is listed with: the primitive name or the reference as written, inside its collection if any
\* (a model field is [class, name, target, wrap, base]; the three-element form of the design-level check has no type)
Label(f) == IF f[4] = "" THEN f[5] ELSE f[4] \o " <" \o f[5] \o ">"

\* verdict for a diagram given as sequences of classes [label, letter], fields [class, name, text], edges [from, to, mult]
Judge(types, fields, dclasses, dfields, dedges, undeclared) ==
  LET wc == WantClasses(types)
      gc == {c[1] : c \in Range(dclasses)}
      wf == WantFields(types, fields)
      gf == {<<f[1], f[2]>> : f \in Range(dfields)}
      pairs == {<<e[1], e[2]>> : e \in Range(dedges)} \cup {<<fields[i][1], fields[i][3]>> : i \in DOMAIN fields}
      got(e) == Cardinality({i \in DOMAIN dedges : <<dedges[i][1], dedges[i][2]>> = e})
      \* references a line is neither required nor forbidden for carry a trailing "?"
      opt(e) == Cardinality({i \in DOMAIN fields : fields[i][1] = e[1] /\ fields[i][3] = e[2] \o "?"})
  IN (IF wc \ gc # {} THEN {"ClassMissing"} ELSE {})
     \cup (IF gc \ wc # {} THEN {"ClassNotInModel"} ELSE {})
     \cup (IF \E c \in gc : Cardinality({i \in DOMAIN dclasses : dclasses[i][1] = c}) > 1 THEN {"ClassDeclaredTwice"} ELSE {})
     \cup (IF wf \ gf # {} THEN {"FieldMissing"} ELSE {})
     \cup (IF gf \ wf # {} THEN {"FieldNotInModel"} ELSE {})
     \cup (IF \E f \in Range(fields), g \in Range(dfields) : Len(f) >= 5 /\ g[1] = f[1] /\ g[2] = f[2] /\ g[3] # Label(f)
           THEN {"FieldTypeDiffers"} ELSE {})
     \cup (IF \E e \in pairs : got(e) < WantEdgeCount(types, fields, e) THEN {"RelationshipMissing"} ELSE {})
     \cup (IF \E e \in pairs : got(e) > WantEdgeCount(types, fields, e) + opt(e) THEN {"RelationshipNotInModel"} ELSE {})
     \* a line whose target is not declared in this diagram is tolerated for references to types that
     \* exist elsewhere in the model but are not drawn here (neither required nor forbidden)
     \cup (IF \E c \in Range(undeclared) \cup {""} :
               Count(undeclared, c) > Cardinality({i \in DOMAIN fields : fields[i][1] = c /\ fields[i][3] # ""
                                                                        /\ fields[i][3] \notin wc})
           THEN {"RelationshipToUndeclaredClass"} ELSE {})

-----------------------------------------------------------------------------
(* Beyond C15: the Mermaid data-model diagram of a whole module              *)
(* (pkg/mermaid/datamodeldiagram), read against the same type graph: a class *)
(* for every table, tuple and enum of every application, every field of a    *)
(* table or tuple listed in its class, and a link between two classes        *)
(* exactly where a field of the one refers (directly or through a            *)
(* collection) to the other.  Links are judged as a set: the generator draws *)
(* one link per pair of classes.                                             *)
MermaidDataJudge(types, fields, dclasses, dfields, dedges) ==
  LET wc == {t[1] : t \in {u \in Range(types) : u[2] \in {"tuple", "relation", "enum"}}}
      any == {t[1] : t \in Range(types)}
      gc == {c[1] : c \in Range(dclasses)}
      wf == WantFields(types, fields)
      gf == {<<f[1], f[2]>> : f \in {g \in Range(dfields) : \E t \in Range(types) : t[1] = g[1] /\ t[2] \in {"tuple", "relation"}}}
      \* a reference out of a tuple to a field of a type (marked "?") may or may not be a link
      must == {<<f[1], f[3]>> : f \in {g \in Range(fields) : g[3] \in wc /\ g[1] \in wc}}
      ge == {<<e[1], e[2]>> : e \in Range(dedges)}
  IN (IF wc \ gc # {} THEN {"MermaidClassMissing"} ELSE {})
     \cup (IF gc \ any # {} THEN {"MermaidClassNotInModel"} ELSE {})
     \cup (IF \E c \in gc : Cardinality({i \in DOMAIN dclasses : dclasses[i][1] = c}) > 1 THEN {"MermaidClassDeclaredTwice"} ELSE {})
     \cup (IF wf \ gf # {} THEN {"MermaidFieldMissing"} ELSE {})
     \cup (IF gf \ wf # {} THEN {"MermaidFieldNotInModel"} ELSE {})
     \cup (IF must \ ge # {} THEN {"MermaidLinkMissing"} ELSE {})
     \cup (IF \E e \in ge : e \notin must /\ ~\E f \in Range(fields) : f[1] = e[1] /\ (f[3] = e[2] \/ f[3] = e[2] \o "?")
           THEN {"MermaidLinkNotInModel"} ELSE {})

-----------------------------------------------------------------------------
(* The intended generator, to show the clauses are satisfiable on every small type graph *)
VARIABLES types, fields
Labels == {"A.T", "A.U", "A.E"}
Init == /\ types \in {<<<<"A.T", k1>>, <<"A.U", k2>>, <<"A.E", "enum">>>> : k1 \in {"tuple", "relation"}, k2 \in {"tuple", "relation", "union"}}
        /\ fields = <<>>
AddField == /\ Len(fields) < 4
            /\ \E c \in {"A.T", "A.U"}, n \in {"a", "b"}, tg \in Labels \cup {"", "B.W"} :
                 /\ ~\E i \in DOMAIN fields : fields[i][1] = c /\ fields[i][2] = n
                 /\ fields' = Append(fields, <<c, n, tg>>)
            /\ UNCHANGED types
Spec == Init /\ [][AddField]_<<types, fields>>
Intended ==
  LET dc == [i \in {j \in DOMAIN types : types[j][2] \in DrawnKinds} |-> types[i]]
      cls == SelectSeq(types, LAMBDA t : t[2] \in DrawnKinds)
      fl == SelectSeq(fields, LAMBDA f : \E t \in Range(types) : t[1] = f[1] /\ t[2] \in {"tuple", "relation"})
      ed == SelectSeq(fields, LAMBDA f : f[3] \in WantClasses(types)
                                        /\ \E t \in Range(types) : t[1] = f[1] /\ t[2] \in {"tuple", "relation"})
  IN Judge(types, fl, cls, fl, [i \in DOMAIN ed |-> <<ed[i][1], ed[i][3], "">>], <<>>) = {}
=============================================================================
