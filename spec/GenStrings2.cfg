SPECIFICATION Spec
CONSTANT MaxLen = 2
CHECK_DEADLOCK FALSE
