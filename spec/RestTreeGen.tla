---------------------------- MODULE RestTreeGen ----------------------------
(* REST path trees for the declaration machine (C02, C04, C08): a chain of   *)
(* k nested path blocks, each adding one path variable (k = 0..7 inherited   *)
(* variables), ending in two or three sibling sub-paths that each declare a  *)
(* further variable and a method.  Every tree is one program of Frontend.tla. *)
EXTENDS Integers, Sequences, TLC, Json
VARIABLE done
NoPos == [file |-> "", line |-> 0, col |-> 0]
Sh(p) == [p |-> p, ref |-> <<>>, size |-> <<>>, opt |-> FALSE, wrap |-> ""]
App == [k |-> "app", name |-> "R", long |-> "", tags |-> <<>>, attrs |-> <<>>, pos |-> NoPos]
End == [k |-> "end"]
Rest(lit, var, p) == [k |-> "rest", parts |-> <<[var |-> FALSE, n |-> lit], [var |-> TRUE, n |-> var, sh |-> Sh(p)]>>]
Method(v) == [k |-> "method", verb |-> v, q |-> <<>>, params |-> <<>>, tags |-> <<>>, attrs |-> <<>>, pos |-> NoPos]
Act(t) == [k |-> "stmt", kind |-> "action", text |-> t, tags |-> <<>>, attrs |-> <<>>, pos |-> NoPos]
Leaf(i, p, v) == <<Rest("s" \o ToString(i), "x" \o ToString(i), p), Method(v), Act("work"), End, End>>
RECURSIVE Chain(_, _), Ends(_), Leaves(_, _, _)
Chain(i, k) == IF i > k THEN <<>> ELSE <<Rest("l" \o ToString(i), "a" \o ToString(i), IF i % 2 = 0 THEN "string" ELSE "int")>> \o Chain(i + 1, k)
Ends(k) == IF k = 0 THEN <<>> ELSE <<End>> \o Ends(k - 1)
Leaves(i, n, v) == IF i > n THEN <<>> ELSE Leaf(i, IF i % 2 = 0 THEN "string" ELSE "int", v) \o Leaves(i + 1, n, v)
\* the enclosing block may itself have a method, before or after its sub-paths
Tree(k, n, v, own) ==
  <<App>> \o Chain(1, k)
  \o (IF own = "before" /\ k > 0 THEN <<Method("PUT"), Act("own"), End>> ELSE <<>>)
  \o Leaves(1, n, v)
  \o (IF own = "after" /\ k > 0 THEN <<Method("PUT"), Act("own"), End>> ELSE <<>>)
  \o Ends(k) \o <<End>>
Init == done = FALSE
Next == /\ ~done /\ done' = TRUE
        /\ \A k \in 0..7, n \in 2..3, v \in {"GET", "POST"}, own \in {"none", "before", "after"} :
             PrintT(<<"SCN", ToJson([decls |-> Tree(k, n, v, own)])>>)
Spec == Init /\ [][Next]_done
=============================================================================
