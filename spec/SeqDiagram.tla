----------------------------- MODULE SeqDiagram -----------------------------
(***************************************************************************)
(* Sequence diagrams (pkg/cmdutils/visitor.go, writer.go,                  *)
(* pkg/sequencediagram): the reference walk of the call tree and the       *)
(* diagram seen as a machine that consumes the emitted PlantUML lines.     *)
(*                                                                         *)
(* Reference walk: starting at an endpoint, every call statement in source *)
(* order (through if/else, loops, groups and the choices of `one of')      *)
(* yields an arrow; the called endpoint is expanded in place unless it is  *)
(* already being expanded (a call in progress is shown, not expanded) or   *)
(* is a blackbox (a set of endpoints given as an option: shown, with a     *)
(* note, never expanded).                                                  *)
(*                                                                         *)
(* Diagram machine: participants are declared once; activate/deactivate    *)
(* keep a depth per participant; a call arrow must be the next arrow of    *)
(* the reference walk and its sender must be active (or the outside        *)
(* world); blocks nest; at the end nothing is left active or open.  With   *)
(* a grouping attribute the diagram ends with one box per attribute value  *)
(* holding exactly the declared participants that carry that value.        *)
(***************************************************************************)
EXTENDS Integers, Sequences, FiniteSets, TLC

\* a model is a sequence of endpoints [app, ep, stmts]; a statement is
\* [k |-> "call" | "block" | "other", app, ep, kids]

Body(eps, a, e) ==
  LET I == {i \in DOMAIN eps : eps[i].app = a /\ eps[i].ep = e}
  IN IF I = {} THEN <<>> ELSE eps[CHOOSE i \in I : TRUE].stmts

RECURSIVE Arrows(_, _, _, _)
Arrows(eps, app, ss, inprog) ==
  IF ss = <<>> THEN <<>>
  ELSE LET s == Head(ss)
           here == IF s.k = "call"
                     THEN LET key == <<s.app, s.ep>>
                              body == Body(eps, s.app, s.ep)
                          IN << <<app, s.app, s.ep>> >> \o
                             (IF key \in inprog \/ body = <<>> THEN <<>>
                              ELSE Arrows(eps, s.app, body, inprog \cup {key}))
                   ELSE IF s.k = "block" THEN Arrows(eps, app, s.kids, inprog)
                   ELSE <<>>
       IN here \o Arrows(eps, app, Tail(ss), inprog)

\* the arrows of the diagram that starts at (a, e), the entry arrow first; cut = the blackboxed endpoints
Want(eps, a, e, cut) == << <<"[", a, e>> >> \o Arrows(eps, a, Body(eps, a, e), {<<a, e>>} \cup cut)

\* a diagram with several starting endpoints draws them one after the other, each as it would be drawn alone (a call to
\* one of the other starting endpoints carries a note "see below", and is expanded all the same)
RECURSIVE WantEach(_, _, _)
WantEach(eps, todo, cut) ==
  IF todo = <<>> THEN <<>>
  ELSE Want(eps, todo[1][1], todo[1][2], cut) \o WantEach(eps, Tail(todo), cut)
WantMany(eps, starts, cut) == WantEach(eps, starts, cut)

-----------------------------------------------------------------------------
(* The diagram machine as a pure step function over a state record          *)
(*   [want, i, active, depth, declared, bad]                                 *)
(* and events [e |-> "declare"|"call"|"activate"|"deactivate"|"open"|"else"| *)
(*             "close"|..., alias, label, from, to, p]                       *)

\* groups: label of a participant -> value of the grouping attribute (only for participants that carry it)
M0G(w, groups) == [want |-> w, i |-> 1, active |-> <<>>, depth |-> 0, declared |-> <<>>, bad |-> {},
                   groups |-> groups, box |-> "", boxed |-> <<>>]
M0(w) == M0G(w, <<>>)

Act(m, p) == IF p \in DOMAIN m.active THEN m.active[p] ELSE 0
Label(m, p) == IF p = "[" THEN "[" ELSE IF p \in DOMAIN m.declared THEN m.declared[p] ELSE "?" \o p
Flag(m, cond, name) == IF cond THEN m ELSE [m EXCEPT !.bad = @ \cup {name}]

Declare(m, alias, label) ==
  [Flag(m, alias \notin DOMAIN m.declared, "DeclaredTwice") EXCEPT !.declared = (alias :> label) @@ @]

Call(m, from, to, label) ==
  LET m1 == Flag(m, m.i <= Len(m.want) /\ m.want[m.i] = <<Label(m, from), Label(m, to), label>>, "ArrowNotNextOfWalk")
      m2 == Flag(m1, from = "[" \/ Act(m, from) > 0, "CallWhileInactive")
      m3 == Flag(m2, (from = "[" \/ from \in DOMAIN m.declared) /\ to \in DOMAIN m.declared, "UndeclaredParticipant")
  IN [m3 EXCEPT !.i = @ + 1]

Activate(m, p) == [Flag(m, p \in DOMAIN m.declared, "UndeclaredParticipant") EXCEPT !.active = (p :> Act(m, p) + 1) @@ @]
Deactivate(m, p) ==
  [Flag(m, Act(m, p) > 0, "DeactivateInactive") EXCEPT !.active = (p :> (IF Act(m, p) > 0 THEN Act(m, p) - 1 ELSE 0)) @@ @]
Open(m) == [m EXCEPT !.depth = @ + 1]
Else(m) == Flag(m, m.depth > 0, "ElseOutsideBlock")
Close(m) == [Flag(m, m.depth > 0, "CloseWithoutOpen") EXCEPT !.depth = IF @ > 0 THEN @ - 1 ELSE 0]

\* grouping boxes: `box "<value>"`, `participant <alias>` lines, `end box`
OpenBox(m, name) == [Flag(m, m.box = "" /\ m.depth = 0, "BoxInsideBlock") EXCEPT !.box = name]
BoxMember(m, alias) ==
  LET m1 == Flag(m, m.box # "", "ParticipantLineOutsideBox")
      m2 == Flag(m1, alias \in DOMAIN m.declared, "UndeclaredParticipant")
      m3 == Flag(m2, alias \notin DOMAIN m.boxed, "ParticipantInTwoBoxes")
      lbl == Label(m, alias)
      m4 == Flag(m3, lbl \in DOMAIN m.groups /\ m.groups[lbl] = m.box, "ParticipantInWrongBox")
  IN [m4 EXCEPT !.boxed = (alias :> m.box) @@ @]
CloseBox(m) == [m EXCEPT !.box = ""]

Do(m, ev) ==
  CASE ev.e = "declare" -> Declare(m, ev.alias, ev.label)
    [] ev.e = "open" /\ ev.kind = "box" -> OpenBox(m, ev.text)
    [] ev.e = "boxmember" -> BoxMember(m, ev.alias)
    [] ev.e = "close" /\ m.box # "" -> CloseBox(m)
    [] ev.e = "call" -> Call(m, ev.from, ev.to, ev.label)
    [] ev.e = "activate" -> Activate(m, ev.p)
    [] ev.e = "deactivate" -> Deactivate(m, ev.p)
    [] ev.e = "open" -> Open(m)
    [] ev.e = "else" -> Else(m)
    [] ev.e = "close" -> Close(m)
    [] OTHER -> m

\* verdict at the end of the diagram
AtEnd(m) == m.bad \cup (IF m.i <= Len(m.want) THEN {"CallsMissing"} ELSE {})
                  \cup (IF \A p \in DOMAIN m.active : m.active[p] = 0 THEN {} ELSE {"LeftActive"})
                  \cup (IF m.depth = 0 /\ m.box = "" THEN {} ELSE {"BlockNotClosed"})
                  \* every declared participant that carries the grouping attribute sits in a box
                  \cup (IF \A al \in DOMAIN m.declared : m.declared[al] \in DOMAIN m.groups => al \in DOMAIN m.boxed
                        THEN {} ELSE {"ParticipantNotGrouped"})

RECURSIVE Run(_, _)
Run(m, evs) == IF evs = <<>> THEN m ELSE Run(Do(m, Head(evs)), Tail(evs))

-----------------------------------------------------------------------------
(* Beyond C13: the Mermaid sequence generator (pkg/mermaid/sequencediagram) *)
(* read against the same reference walk.  It draws every call once (it does *)
(* not repeat a call it has drawn before), so it is judged on sets and on   *)
(* order: every arrow between two applications is an arrow of the walk,     *)
(* every distinct arrow of the walk is drawn, the drawn calls come in the   *)
(* order of the walk, every block it opens is closed, and every line is a   *)
(* Mermaid sequence-diagram statement.  An arrow from an application to     *)
(* itself that the walk does not have is an action, not a call.             *)
RECURSIVE IsSubseq(_, _)
IsSubseq(a, b) == IF a = <<>> THEN TRUE
                  ELSE IF b = <<>> THEN FALSE
                  ELSE IF Head(a) = Head(b) THEN IsSubseq(Tail(a), Tail(b)) ELSE IsSubseq(a, Tail(b))
RECURSIVE FirstsOf(_, _)
FirstsOf(s, seen) == IF s = <<>> THEN <<>>
                     ELSE IF Head(s) \in seen THEN FirstsOf(Tail(s), seen)
                     ELSE <<Head(s)>> \o FirstsOf(Tail(s), seen \cup {Head(s)})
MermaidJudge(want, got, opens, ends, unknown) ==
  LET ws == {want[i] : i \in DOMAIN want}
      calls == SelectSeq(got, LAMBDA a : a[1] # a[2] \/ a \in ws)
      cs == {calls[i] : i \in DOMAIN calls}
      drawn == SelectSeq(calls, LAMBDA a : a \in ws)
  IN (IF cs \subseteq ws THEN {} ELSE {"MermaidArrowNotOfWalk"})
     \cup (IF ws \subseteq cs THEN {} ELSE {"MermaidCallNotDrawn"})
     \cup (IF IsSubseq(FirstsOf(drawn, {}), want) THEN {} ELSE {"MermaidCallsOutOfWalkOrder"})
     \cup (IF opens = ends THEN {} ELSE {"MermaidBlockNotClosed"})
     \cup (IF unknown = 0 THEN {} ELSE {"MermaidLineIsNoStatement"})

-----------------------------------------------------------------------------
(* The intended generator (a transcription of the visitor's rules): used to *)
(* show that the clauses are satisfiable by the design on every small call   *)
(* graph, including recursive ones, before any implementation is blamed.     *)

E(e) == [e |-> e, alias |-> "", label |-> "", from |-> "", to |-> "", p |-> "", kind |-> "", text |-> ""]
RECURSIVE Emit(_, _, _, _)
Emit(eps, app, ss, inprog) ==
  IF ss = <<>> THEN <<>>
  ELSE LET s == Head(ss)
           here == IF s.k = "call"
                     THEN LET key == <<s.app, s.ep>>
                              body == Body(eps, s.app, s.ep)
                          IN << [E("call") EXCEPT !.from = app, !.to = s.app, !.label = s.ep] >> \o
                             (IF key \in inprog \/ body = <<>> THEN <<>>
                              ELSE << [E("activate") EXCEPT !.p = s.app] >>
                                   \o Emit(eps, s.app, body, inprog \cup {key})
                                   \o << [E("deactivate") EXCEPT !.p = s.app] >>)
                   ELSE IF s.k = "block"
                     THEN <<E("open")>> \o Emit(eps, app, s.kids, inprog) \o <<E("close")>>
                   ELSE <<>>
       IN here \o Emit(eps, app, Tail(ss), inprog)

Apps(eps) == {eps[j].app : j \in DOMAIN eps}
Intended(eps, a, e, cut) ==
  LET decls == [j \in 1..Cardinality(Apps(eps)) |-> E("declare")]   \* aliases are the application names
      ds == {[E("declare") EXCEPT !.alias = x, !.label = x] : x \in Apps(eps)}
  IN << [E("call") EXCEPT !.from = "[", !.to = a, !.label = e], [E("activate") EXCEPT !.p = a] >>
     \o Emit(eps, a, Body(eps, a, e), {<<a, e>>} \cup cut) \o << [E("deactivate") EXCEPT !.p = a] >>

DeclareAll(m, eps) == [m EXCEPT !.declared = [x \in Apps(eps) |-> x]]
IntendedClean(eps, a, e, cut) == AtEnd(Run(DeclareAll(M0(Want(eps, a, e, cut)), eps), Intended(eps, a, e, cut))) = {}
=============================================================================
