------------------------------- MODULE Lexer -------------------------------
(***************************************************************************)
(* The indentation machine of the hand-written Sysl lexer                  *)
(* (pkg/grammar/lexer_impl.go: calcSpaces, getNextToken).                  *)
(*                                                                         *)
(* A source text is a sequence of lines; a line is a record                *)
(*   [kind |-> "code" | "blank" | "ws" | "comment", lead |-> Seq({" ","\t"})]*)
(* The machine keeps the stack of open indentation widths; a code line     *)
(* whose width differs from the top of the stack emits INDENT (push) or    *)
(* DEDENTs (pop) until they agree; blank, whitespace-only and comment      *)
(* lines bypass the machine.  At end of input the stack is unwound.        *)
(* Width counts a space as 1 and a tab as 4 wherever it stands.            *)
(*                                                                         *)
(* Design-level theorems (C03), checked by TLC over all texts of bounded   *)
(* length: the token stream is invariant under scaling all widths,         *)
(* replacing 4-space units by tabs, and inserting blank or comment lines.  *)
(***************************************************************************)
EXTENDS Integers, Sequences, FiniteSets, TLC

CONSTANTS MaxLines, MaxWidth

RECURSIVE Width(_)
Width(lead) == IF lead = <<>> THEN 0
               ELSE (IF Head(lead) = "\t" THEN 4 ELSE 1) + Width(Tail(lead))

Top(stk) == IF stk = <<>> THEN 0 ELSE stk[Len(stk)]

RECURSIVE Adjust(_, _, _)
\* [stk, out] after bringing the stack to width w
Adjust(stk, out, w) ==
  IF w = Top(stk) THEN [stk |-> stk, out |-> out]
  ELSE IF w > Top(stk) THEN Adjust(Append(stk, w), Append(out, "INDENT"), w)
  ELSE Adjust(SubSeq(stk, 1, Len(stk) - 1), Append(out, "DEDENT"), w)

StepLine(s, ln) ==
  IF ln.kind # "code" THEN s            \* bypasses the indentation machine
  ELSE LET r == Adjust(s.stk, s.out, Width(ln.lead))
       IN [stk |-> r.stk, out |-> Append(r.out, "CODE")]

RECURSIVE Run(_, _)
Run(s, ls) == IF ls = <<>> THEN s ELSE Run(StepLine(s, Head(ls)), Tail(ls))

Tokens(ls) == LET s == Run([stk |-> <<>>, out |-> <<>>], ls)
              IN Adjust(s.stk, s.out, 0).out       \* end of input unwinds

\* --- the state machine: texts are built line by line -----------------------
VARIABLES text
vars == <<text>>

Spaces(n) == [i \in 1..n |-> " "]

Lines == {[kind |-> "code", lead |-> Spaces(n)] : n \in 0..MaxWidth}
         \cup {[kind |-> k, lead |-> Spaces(n)] : k \in {"blank", "comment"}, n \in {0, 2}}

Init == text = <<>>
AddLine == Len(text) < MaxLines /\ \E ln \in Lines : text' = Append(text, ln)
Next == AddLine
Spec == Init /\ [][Next]_vars

\* --- layout transformations -------------------------------------------------
Scale(k, ls) == [i \in DOMAIN ls |-> [ls[i] EXCEPT !.lead = Spaces(k * Len(ls[i].lead))]]

\* replace the 4-space unit starting at offset o (if there is one) by a tab, in line i
TabAt(ls, i, o) ==
  LET ld == ls[i].lead IN
  IF Len(ld) >= o + 4 /\ \A j \in (o + 1)..(o + 4) : ld[j] = " "
    THEN [ls EXCEPT ![i].lead = SubSeq(ld, 1, o) \o <<"\t">> \o SubSeq(ld, o + 5, Len(ld))]
    ELSE ls

InsertAt(ls, i, ln) == SubSeq(ls, 1, i) \o <<ln>> \o SubSeq(ls, i + 1, Len(ls))

ScaleInvariant == \A k \in 1..4 : Tokens(Scale(k, text)) = Tokens(text)
TabInvariant == \A i \in DOMAIN text : \A o \in 0..MaxWidth : Tokens(TabAt(text, i, o)) = Tokens(text)
BlankInvariant == \A i \in 0..Len(text) : \A n \in {0, 3} :
                    Tokens(InsertAt(text, i, [kind |-> "blank", lead |-> Spaces(n)])) = Tokens(text)
CommentInvariant == \A i \in 0..Len(text) : \A n \in {0, 1, 5} :
                    Tokens(InsertAt(text, i, [kind |-> "comment", lead |-> Spaces(n)])) = Tokens(text)
\* the stream depends on the order relation among code-line widths only, and is balanced
Balanced == LET t == Tokens(text)
                n(x) == Cardinality({i \in DOMAIN t : t[i] = x})
            IN n("INDENT") = n("DEDENT")
=============================================================================
