------------------------------ MODULE EvalTrace ------------------------------
(* The values the real evaluator returned for every bound variable of a       *)
(* let-program, compared with the reference interpreter Eval.tla.             *)
EXTENDS Eval, Json
VARIABLES l, lets
Trace == ndJsonDeserialize("trace.ndjson")
Ev == Trace[l]
Is(e) == l <= Len(Trace) /\ Trace[l].e = e
Say(kind, t, what) == PrintT(<<kind, ToJson([t |-> t, l |-> l, what |-> what])>>)

RECURSIVE From(_)
From(v) ==
  CASE v.k = "int" -> IntV(v.i)
    [] v.k = "str" -> Str(v.s)
    [] v.k = "bool" -> Bool(v.b)
    [] v.k = "list" -> List([j \in DOMAIN v.e |-> From(v.e[j])])
    [] v.k = "set" -> Set({From(v.e[j]) : j \in DOMAIN v.e})
    [] v.k = "map" -> Map([key \in DOMAIN v.m |-> From(v.m[key])])
    [] OTHER -> [k |-> v.k]

RECURSIVE DupFree(_)
DupFree(v) ==
  CASE v.k = "set" -> /\ Cardinality({From(v.e[j]) : j \in DOMAIN v.e}) = Len(v.e)
                      /\ \A j \in DOMAIN v.e : DupFree(v.e[j])
    [] v.k = "list" -> \A j \in DOMAIN v.e : DupFree(v.e[j])
    [] v.k = "map" -> \A key \in DOMAIN v.m : DupFree(v.m[key])
    [] OTHER -> TRUE

NormArg(a) == IF "ref" \in DOMAIN a THEN [ref |-> a.ref] ELSE [lit |-> From(a.lit)]
NormLets(ls) == [j \in DOMAIN ls |-> [v |-> ls[j].v, op |-> ls[j].op, args |-> [q \in DOMAIN ls[j].args |-> NormArg(ls[j].args[q])]]]

Start == Is("start") /\ lets' = NormLets(Ev.lets) /\ l' = l + 1

Result ==
  /\ Is("result")
  /\ LET want == RunLets(<<>>, lets)
         wrong == {want[j].v : j \in {q \in DOMAIN want : want[q].v \notin DOMAIN Ev.vals
                                                          \/ From(Ev.vals[want[q].v]) # want[q].val}}
         dups == {want[j].v : j \in {q \in DOMAIN want : want[q].v \in DOMAIN Ev.vals /\ ~DupFree(Ev.vals[want[q].v])}}
         bad == (IF wrong = {} THEN {} ELSE {"WrongValue"}) \cup (IF dups = {} THEN {} ELSE {"SetWithDuplicates"})
     IN bad # {} => Say("VERDICT", Ev.t, [bad |-> bad, vars |-> wrong \cup dups,
                                           ops |-> {lets[j].op : j \in {q \in DOMAIN lets : lets[q].v \in wrong \cup dups}}])
  /\ UNCHANGED lets /\ l' = l + 1

Normal == Start \/ Result
\* parse failure of a rendered program, panic, or the process exiting in the evaluator
Skip == /\ l <= Len(Trace) /\ ~ENABLED Normal /\ Say("REJECT", Ev.t, Ev.e) /\ l' = l + 1 /\ UNCHANGED lets
TraceInit == l = 1 /\ lets = <<>>
TraceSpec == TraceInit /\ [][Normal \/ Skip]_<<l, lets>>
Consumed == TLCSet(1, l)
AllConsumed == TLCGet(1) = Len(Trace) + 1
=============================================================================
