SPECIFICATION Spec
CONSTANT Rich = FALSE
INVARIANT DesignSatisfiesClauses
CHECK_DEADLOCK FALSE
