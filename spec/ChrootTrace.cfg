SPECIFICATION TraceSpec
CONSTANTS
  Segs = {"", ".", "..", "a", "b.c", "d e"}
  MaxLen = 9
  RootSet <- TraceRoots
CONSTRAINT Consumed
POSTCONDITION AllConsumed
CHECK_DEADLOCK FALSE
