SPECIFICATION Spec
CONSTANTS
  Mode = "field"
  Exh = {}
  MaxTypes = 1
  MaxEps = 0
  Awkward = TRUE
INVARIANT AlwaysWellFormed
CHECK_DEADLOCK FALSE
