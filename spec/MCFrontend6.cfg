\* exhaustive over all programs of <= 7 declarations on the small alphabet
SPECIFICATION GenSpec
CONSTANTS
  MaxDecls = 6
  Sample = FALSE
  WithPlans = FALSE
  BlockBudget = 1000
  MinDecls = 0
  MaxNest = 5
  TypesOnly = FALSE
  CallsOnly = FALSE
  Rich = FALSE
  Inplace = FALSE
  Collectors = FALSE
INVARIANTS ScopeWellFormed ReplayAgrees MergeIndependent
CHECK_DEADLOCK FALSE
