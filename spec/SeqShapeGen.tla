---------------------------- MODULE SeqShapeGen ----------------------------
(* Exhaustive block shapes for sequence diagrams (C13): one endpoint whose   *)
(* body is [a call] + one block + [a call], the block being an if with or    *)
(* without else, a loop of every kind, a labelled group, or a `one of' with  *)
(* two or three choices; every body is the placeholder `...', an action, a   *)
(* call or a return.  Printed as declaration sequences in the vocabulary of  *)
(* FrontendGen.tla.                                                          *)
EXTENDS Integers, Sequences, TLC, Json

VARIABLES phase
vars == <<phase>>

NoPos == [file |-> "", line |-> 0, col |-> 0]
App(n) == [k |-> "app", name |-> n, long |-> "", tags |-> <<>>, attrs |-> <<>>, pos |-> NoPos]
Ep(n) == [k |-> "ep", name |-> n, long |-> "", params |-> <<>>, tags |-> <<>>, attrs |-> <<>>, pos |-> NoPos]
End == [k |-> "end"]
Act(t) == [k |-> "stmt", kind |-> "action", text |-> t, tags |-> <<>>, attrs |-> <<>>, pos |-> NoPos]
Call(a, e) == [k |-> "stmt", kind |-> "call", app |-> a, ep |-> e, text |-> "", tags |-> <<>>, attrs |-> <<>>, pos |-> NoPos]
Ret(t) == [k |-> "stmt", kind |-> "ret", text |-> t, tags |-> <<>>, attrs |-> <<>>, pos |-> NoPos]
Block(kw, t) == [k |-> "block", kw |-> kw, text |-> t, pos |-> NoPos]

Bodies == {"empty", "action", "call", "ret"}
Body(b) == CASE b = "empty" -> <<Act("...")>>
             [] b = "action" -> <<Act("do it")>>
             [] b = "call" -> <<Call("B", "e1")>>
             [] OTHER -> <<Ret("ok")>>

Around == {<<FALSE, FALSE>>, <<TRUE, FALSE>>, <<FALSE, TRUE>>, <<TRUE, TRUE>>}
Wrap(ar, mid) ==
  <<App("A"), Ep("e1")>> \o (IF ar[1] THEN <<Call("C", "e1")>> ELSE <<>>) \o mid \o (IF ar[2] THEN <<Call("C", "e2")>> ELSE <<>>)
  \o <<End, End, App("B"), Ep("e1"), Act("work in B"), End, End, App("C"), Ep("e1"), Act("work in C"), End, Ep("e2"), Ret("ok"), End, End>>

Choice(t, b) == <<[k |-> "choice", text |-> t]>> \o Body(b) \o <<End>>
OneOf(bs) == <<[k |-> "oneof", pos |-> NoPos]>> \o Choice("case one", bs[1]) \o Choice("case two", bs[2])
             \o (IF Len(bs) > 2 THEN Choice("case three", bs[3]) ELSE <<>>) \o <<End>>

Emit(shape, ds) == PrintT(<<"SCN", ToJson([shape |-> shape, decls |-> ds])>>)

Init == phase = 0
Next ==
  \/ /\ phase = 0 /\ phase' = 1
     /\ \A ar \in Around, b1 \in Bodies, b2 \in Bodies, b3 \in Bodies \cup {"none"} :
          Emit(<<"oneof", b1, b2, b3>>, Wrap(ar, OneOf(IF b3 = "none" THEN <<b1, b2>> ELSE <<b1, b2, b3>>)))
  \/ /\ phase = 1 /\ phase' = 2
     /\ \A ar \in Around, b1 \in Bodies, b2 \in Bodies \cup {"none"} :
          Emit(<<"if", b1, b2>>, Wrap(ar, <<Block("if", "x > 5")>> \o Body(b1) \o <<End>>
                                       \o (IF b2 = "none" THEN <<>> ELSE <<Block("else", "")>> \o Body(b2) \o <<End>>)))
  \/ /\ phase = 2 /\ phase' = 3
     /\ \A ar \in Around, kw \in {"until", "while", "for each", "for", "alt", "label"}, b \in Bodies :
          Emit(<<kw, b>>, Wrap(ar, <<Block(kw, "stock is low")>> \o Body(b) \o <<End>>))
  \/ /\ phase = 3 /\ phase' = 4
     \* a block inside a block: the inner one empty or not, the outer one with something after it or not
     /\ \A ar \in Around, b1 \in Bodies, b2 \in Bodies :
          Emit(<<"nested", b1, b2>>,
               Wrap(ar, <<Block("if", "x > 5"), Block("for each", "item in items")>> \o Body(b1) \o <<End>> \o Body(b2) \o <<End>>))
Spec == Init /\ [][Next]_vars
=============================================================================
