----------------------------- MODULE InteropGen -----------------------------
(* Abstract documents for the interchange checks (C11, C12).                 *)
(*   Mode "field": every (name, base, array, required) shape of one field    *)
(*                 of an object type, next to a key field (exhaustive BFS)   *)
(*   Mode "ep"   : one endpoint; the dimensions named in Exh are enumerated  *)
(*                 exhaustively, the others drawn at random                  *)
(*   Mode "pair" : two or three operations on one path item                 *)
(*   Mode "ext"  : chains of types that extend one another                  *)
(*   Mode "ring" : types that refer to one another in a cycle                *)
(*   Mode "random": documents with several types and endpoints (simulate)    *)
(* Every generated document satisfies WellFormed (checked as an invariant).  *)
EXTENDS InteropFacts, Json

CONSTANTS Mode, Exh, MaxTypes, MaxEps, Awkward

VARIABLES types, eps, step
gvars == <<types, eps, step>>

TypeNames == <<"Thing", "Err", "Item", "Acct">>
FieldNames == IF Awkward THEN {"name", "count", "type", "my-field", "flag", "int", "Upper", "a_b", "$1x", ".5x"}
                         ELSE {"name", "count", "flag", "label", "when", "size"}
ParamNames == IF Awkward THEN {"q", "limit", "X-Hdr", "type", "my-p"} ELSE {"q", "limit", "sort", "page"}
Methods == {"GET", "POST", "PUT", "DELETE", "PATCH"}
Codes == {"200", "201", "204", "400", "404", "500"}
\* path templates with their parameters
Paths == { [p |-> "/things", pp |-> <<>>],
           [p |-> "/things/{id}", pp |-> <<"id">>],
           [p |-> "/a/{x}/b/{y}", pp |-> <<"x", "y">>],
           [p |-> "/things/{id}/sub", pp |-> <<"id">>] }

F(n, b, a, r, k) == [name |-> n, base |-> b, arr |-> a, req |-> r, key |-> k, sub |-> <<>>]
Inline(n, a, r) == [name |-> n, base |-> "inline", arr |-> a, req |-> r, key |-> FALSE,
                    sub |-> <<F("x", "string", FALSE, TRUE, FALSE), F("y", "int", FALSE, FALSE, FALSE)>>]
Obj(n, fs) == [name |-> n, kind |-> "object", fields |-> fs, base |-> "", vals |-> <<>>]
V(n, k) == [name |-> n, num |-> k]
EnumVals == {<<V("RED", 1), V("GREEN", 2)>>, <<V("OFF", 0), V("ON", 1)>>, <<V("R", 1), V("W", 2), V("X", 4), V("ADMIN", 8)>>,
             <<V("OK", 200), V("NOTFOUND", 404), V("BROKEN", 500)>>}

Err == Obj("Err", <<F("code", "int", FALSE, TRUE, TRUE), F("msg", "string", FALSE, FALSE, FALSE)>>)
Color == [name |-> "Color", kind |-> "enum", fields |-> <<>>, base |-> "string", vals |-> <<V("RED", 1), V("GREEN", 2), V("AMBER", 7)>>]
Names == [name |-> "Names", kind |-> "array", fields |-> <<>>, base |-> "string", vals |-> <<>>]

Doc == [types |-> types, eps |-> eps]
Emit == PrintT(<<"SCN", ToJson([openapi |-> Doc, xsd |-> XsdDoc(Doc), sql |-> SqlDoc(Doc), export |-> ExportDoc(Doc), avro |-> AvroDoc(Doc), proto |-> ProtoDoc(Doc)])>>)
R(S) == RandomElement(S)
Coin(n) == RandomElement(1..n) = 1

-----------------------------------------------------------------------------
(* Mode "field"                                                            *)
FieldBases == Prims \cup {"ref:Err", "ref:Thing", "ref:Color", "inline"}
FieldDocs ==
  {<<Err, Color, Obj("Thing", <<F("id", "int", FALSE, TRUE, TRUE), f>>)>> :
     f \in {IF b = "inline" THEN Inline(n, a, r) ELSE F(n, b, a, r, FALSE) :
              n \in FieldNames, b \in FieldBases, a \in BOOLEAN, r \in BOOLEAN}}

-----------------------------------------------------------------------------
(* Mode "ep"                                                               *)
Dim(d, S) == IF d \in Exh THEN S ELSE {R(S)}
ParamChoices == {<<>>} \cup {<<[name |-> "q", loc |-> l, base |-> b, arr |-> a, req |-> r]>> :
                               l \in {"query", "header"}, b \in {"string", "int", "bool"}, a \in BOOLEAN, r \in BOOLEAN}
BodyChoices == {[base |-> "", arr |-> FALSE, req |-> FALSE]}
               \cup {[base |-> b, arr |-> a, req |-> r] : b \in {"ref:Thing", "string"}, a \in BOOLEAN, r \in BOOLEAN}
RespChoices == {<<[code |-> c, base |-> b, arr |-> a]>> : c \in {"200", "201", "404"}, b \in {"ref:Thing", "ref:Err", "string", "int"}, a \in BOOLEAN}
               \cup {<<[code |-> "204", base |-> "", arr |-> FALSE]>>}
PP(path, b) == [i \in DOMAIN path.pp |-> [name |-> path.pp[i], base |-> b]]
EpDocs ==
  {<<[method |-> m, path |-> pa.p, pparams |-> PP(pa, pb), params |-> ps,
      body |-> IF m \in {"GET", "DELETE"} THEN [base |-> "", arr |-> FALSE, req |-> FALSE] ELSE bd, resps |-> rs]>> :
     m \in Dim("method", Methods), pa \in Dim("path", Paths), pb \in Dim("pbase", {"int", "string"}),
     ps \in Dim("param", ParamChoices), bd \in Dim("body", BodyChoices), rs \in Dim("resp", RespChoices)}
EpTypes == <<Err, Obj("Thing", <<F("id", "int", FALSE, TRUE, TRUE), F("name", "string", FALSE, TRUE, FALSE)>>)>>

-----------------------------------------------------------------------------
(* Mode "pair": two operations on one path item (shared path-level         *)
(* parameters), each with or without parameters of its own, with bodies of  *)
(* the same or of different types                                           *)
NoBody == [base |-> "", arr |-> FALSE, req |-> FALSE]
\* pt: the type this operation gives the variables of the path (two operations of one path may disagree)
PairOpT(m, pa, own, bt, pt) ==
  [method |-> m, path |-> pa.p, pparams |-> PP(pa, pt),
   params |-> IF own THEN <<[name |-> "q", loc |-> "query", base |-> "string", arr |-> FALSE, req |-> FALSE]>> ELSE <<>>,
   body |-> IF m \in {"GET", "DELETE"} THEN NoBody ELSE [base |-> bt, arr |-> FALSE, req |-> TRUE],
   resps |-> <<[code |-> "200", base |-> "ref:Thing", arr |-> FALSE]>>]
PairOp(m, pa, own, bt) == PairOpT(m, pa, own, bt, "int")
PairDocs ==
  {<<PairOp(mm[1], pa, o1, "ref:Thing"), PairOpT(mm[2], pa, o2, b2, pt)>> :
     mm \in {x \in Methods \X Methods : x[1] # x[2]}, pa \in {x \in Paths : x.p \in {"/things", "/things/{id}"}},
     o1 \in BOOLEAN, o2 \in BOOLEAN, b2 \in {"ref:Thing", "ref:Err"},
     pt \in {"int", "string"}}
           \cup
  {<<PairOp("PUT", pa, FALSE, "ref:Thing"), PairOp("PATCH", pa, FALSE, "ref:Thing"), PairOp("POST", pa, FALSE, b3)>> :
     pa \in {x \in Paths : x.p = "/a/{x}/b/{y}"}, b3 \in {"ref:Thing", "ref:Err"}}

-----------------------------------------------------------------------------
(* Mode "ext": chains of object types that extend one another (XSD extension), the middle type with fields of  *)
(* its own or with none                                                                                           *)
ObjB(n, fs, b) == [name |-> n, kind |-> "object", fields |-> fs, base |-> b, vals |-> <<>>]
ExtDocs ==
  {<<Obj("Party", <<F("id", "int", FALSE, TRUE, TRUE), F("name", "string", FALSE, r1, FALSE)>>),
     ObjB("Mid", mid, "Party"),
     ObjB("Leaf", <<F("tier", "string", a, r2, FALSE)>>, top)>> :
       r1 \in BOOLEAN, r2 \in BOOLEAN, a \in BOOLEAN, top \in {"Mid", "Party"},
       mid \in {<<>>, <<F("tag", "string", FALSE, FALSE, FALSE)>>, <<F("tag", "string", FALSE, TRUE, FALSE), F("n", "int", TRUE, FALSE, FALSE)>>}}
NextExt == step = 0 /\ \E d \in ExtDocs : types' = d /\ eps' = <<>> /\ step' = 1

-----------------------------------------------------------------------------
(* Mode "ring": object types that refer to one another in a cycle of two or three (an order has lines, a line   *)
(* names its order), each link plain or an array, required or not; with and without a type that refers to itself *)
RingDocs ==
  {<<Obj("Order", <<F("id", "int", FALSE, TRUE, TRUE), F("lines", "ref:Line", a1, r1, FALSE)>>),
     Obj("Line", <<F("n", "int", FALSE, TRUE, FALSE), F("order", "ref:Order", a2, r2, FALSE)>>)>> :
       a1 \in BOOLEAN, r1 \in BOOLEAN, a2 \in BOOLEAN, r2 \in BOOLEAN}
  \cup
  {<<Obj("Order", <<F("id", "int", FALSE, TRUE, TRUE), F("lines", "ref:Line", a1, TRUE, FALSE)>>),
     Obj("Line", <<F("item", "ref:Item", FALSE, r1, FALSE)>> \o (IF self THEN <<F("next", "ref:Line", FALSE, FALSE, FALSE)>> ELSE <<>>)),
     Obj("Item", <<F("name", "string", FALSE, TRUE, FALSE), F("last", "ref:Order", a2, FALSE, FALSE)>>)>> :
       a1 \in BOOLEAN, r1 \in BOOLEAN, a2 \in BOOLEAN, self \in BOOLEAN}
NextRing == step = 0 /\ \E d \in RingDocs : types' = d /\ eps' = <<>> /\ step' = 1

-----------------------------------------------------------------------------
(* Mode "random"                                                           *)
(* RandomElement is re-evaluated at every use of a LET name, so every       *)
(* random draw is bound once by ranging over a singleton set.               *)
One(S) == CHOOSE x \in S : TRUE
RandBase(known, self) == IF Coin(3) THEN R({"ref:" \o x : x \in known \cup {self}}) ELSE IF Coin(8) THEN "inline" ELSE R(Prims)
RandField(n, known, self) ==
  One({IF b = "inline" THEN Inline(n, a, r) ELSE F(n, b, a, r, FALSE) :
         b \in {RandBase(known, self)}, a \in {Coin(4)}, r \in {Coin(2)}})

RECURSIVE RandFields(_, _, _, _)
RandFields(names, k, known, self) ==
  IF k = 0 \/ names = {} THEN <<>>
  ELSE One({<<RandField(n, known, self)>> \o RandFields(names \ {n}, k - 1, known, self) : n \in {R(names)}})

RandType(n, known) ==
  IF known # {} /\ Coin(5) THEN One({[name |-> n, kind |-> k, fields |-> <<>>, base |-> IF k = "enum" THEN "string" ELSE R({"string", "int"}),
                                        vals |-> IF k = "enum" THEN R(EnumVals) ELSE <<>>] : k \in {R({"enum", "enum", "array", "prim"})}})
  ELSE [name |-> n, kind |-> "object", base |-> "", vals |-> <<>>,
        fields |-> <<F("id", R({"int", "string"}), FALSE, TRUE, TRUE)>> \o RandFields(FieldNames, R(1..5), known, n)]

ObjNames(ts) == {ts[i].name : i \in {j \in DOMAIN ts : ts[j].kind = "object"}}
AllNames(ts) == {ts[i].name : i \in DOMAIN ts}

RECURSIVE RandParams(_, _)
RandParams(names, k) ==
  IF k = 0 \/ names = {} THEN <<>>
  ELSE One({<<[name |-> n, loc |-> R({"query", "query", "header"}), base |-> R({"string", "int", "bool", "float"}), arr |-> Coin(5), req |-> Coin(2)]>>
            \o RandParams(names \ {n}, k - 1) : n \in {R(names)}})

RandRespBase(c, objs) == IF c = "204" THEN "" ELSE IF Coin(4) THEN R({"string", "int"}) ELSE "ref:" \o R(objs)
RECURSIVE RandResps(_, _, _)
RandResps(codes, k, objs) ==
  IF k = 0 \/ codes = {} THEN <<>>
  ELSE One({One({<<[code |-> c, base |-> b, arr |-> (b # "" /\ a)]>> \o RandResps(codes \ {c}, k - 1, objs) :
                   b \in {RandRespBase(c, objs)}, a \in {Coin(4)}}) : c \in {R(codes)}})

RandEp(m, pa, objs) ==
  [method |-> m, path |-> pa.p, pparams |-> PP(pa, IF pa.p = "/things/{id}" THEN "int" ELSE "string"),
   params |-> RandParams(ParamNames, R(0..3)),
   body |-> IF m \in {"GET", "DELETE"} THEN [base |-> "", arr |-> FALSE, req |-> FALSE]
            ELSE [base |-> "ref:" \o R(objs), arr |-> Coin(5), req |-> Coin(2)],
   resps |-> RandResps(Codes, R(1..3), objs)]

Used(es) == {<<es[i].method, es[i].path>> : i \in DOMAIN es}

-----------------------------------------------------------------------------
Init == types = <<>> /\ eps = <<>> /\ step = 0

NextField == step = 0 /\ \E d \in FieldDocs : types' = d /\ eps' = <<>> /\ step' = 1
NextPair == step = 0 /\ \E e \in PairDocs : types' = EpTypes /\ eps' = e /\ step' = 1
NextEp == step = 0 /\ \E e \in EpDocs : types' = EpTypes /\ eps' = e /\ step' = 1

AddType == /\ step = 0 /\ Len(types) < MaxTypes
           /\ \E t \in {RandType(TypeNames[Len(types) + 1], AllNames(types))} : types' = Append(types, t)
           /\ UNCHANGED <<eps, step>>
TypesDone == step = 0 /\ Len(types) >= 1 /\ step' = 1 /\ UNCHANGED <<types, eps>>
AddEp == /\ step = 1 /\ Len(eps) < MaxEps
         /\ \E c \in {R({<<m, pa>> \in Methods \X Paths : <<m, pa.p>> \notin Used(eps)})} :
              eps' = Append(eps, RandEp(c[1], c[2], ObjNames(types)))
         /\ UNCHANGED <<types, step>>

Done == /\ \/ Mode \in {"field", "ep", "pair", "ext", "ring"} /\ step = 1
           \/ Mode = "random" /\ step = 1
        /\ Emit /\ step' = 2 /\ UNCHANGED <<types, eps>>

Next == \/ Mode = "field" /\ NextField
        \/ Mode = "ep" /\ NextEp
        \/ Mode = "pair" /\ NextPair
        \/ Mode = "ext" /\ NextExt
        \/ Mode = "ring" /\ NextRing
        \/ Mode = "random" /\ (AddType \/ TypesDone \/ AddEp)
        \/ Done
Spec == Init /\ [][Next]_gvars

AlwaysWellFormed == WellFormed(Doc)
=============================================================================
