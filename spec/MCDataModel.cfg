SPECIFICATION Spec
INVARIANT Intended
CHECK_DEADLOCK FALSE
