SPECIFICATION GenSpec
CONSTANTS
  MaxDecls = 60
  Sample = TRUE
  WithPlans = FALSE
  BlockBudget = 1000
  MinDecls = 25
  MaxNest = 5
  TypesOnly = FALSE
  CallsOnly = FALSE
  Rich = TRUE
  Inplace = TRUE
  Collectors = TRUE
CHECK_DEADLOCK FALSE
