SPECIFICATION GenSpec
CONSTANTS
  MaxDecls = 60
  Sample = TRUE
  Rich = TRUE
CHECK_DEADLOCK FALSE
