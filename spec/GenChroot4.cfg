SPECIFICATION GenSpec
CONSTANTS
  Segs = {"", ".", "..", "a", "b.c", "d e"}
  MaxLen = 4
  RootSet <- GenRoots
CHECK_DEADLOCK FALSE
