SPECIFICATION GenSpec
CONSTANTS
  Segs = {"", ".", "..", "a", "b.c", "d e", "ab", "..a"}
  MaxLen = 4
  RootSet <- GenRoots
CHECK_DEADLOCK FALSE
