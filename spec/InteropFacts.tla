------------------------------- MODULE InteropFacts ----------------------------
(***************************************************************************)
(* Interchange with foreign specifications (pkg/importer, pkg/exporter).   *)
(*                                                                         *)
(* An abstract document is what an OpenAPI 2/3 description, an XSD schema, *)
(* a SQL DDL script and a REST-style Sysl application have in common:      *)
(*                                                                         *)
(*   doc.types : sequence of [name, kind, fields, base]                    *)
(*       kind   "object" | "enum" | "array" | "prim"                       *)
(*       fields sequence of [name, base, arr, req, key, sub]               *)
(*              base  a primitive kind, "ref:<type>" or "inline"           *)
(*              sub   the fields of an inline object (one level)           *)
(*       vals   for an enum: sequence of [name, num]                        *)
(*       base   for a non-object type: the element / underlying kind;      *)
(*              for an object: the type it extends ("" if none)            *)
(*   doc.eps   : sequence of [method, path, pparams, params, body, resps]  *)
(*       pparams sequence of [name, base]         (the {..} of the path)   *)
(*       params  sequence of [name, loc, base, arr, req]  loc query|header *)
(*       body    [base, arr, req]                 base "" = no body        *)
(*               (whether a body is required is rendered but not compared:  *)
(*               the property lists optionality for properties and columns) *)
(*       resps   sequence of [code, base, arr]    base "" = no payload     *)
(*                                                                         *)
(* Facts(doc) is the set of statements any carrier of the document must    *)
(* contain, written as tuples of strings so that the implementation side only has to *)
(* print what it sees.  A pipeline run (import: render, import, compile,   *)
(* observe, import again; export: compile, export, validate, read, import  *)
(* back) is a behaviour of the stage machine below; a stage that fails or  *)
(* an observation that lacks an expected fact is recorded in `bad'.        *)
(***************************************************************************)
EXTENDS Integers, Sequences, FiniteSets, TLC

Range(s) == {s[i] : i \in DOMAIN s}
B(b) == IF b THEN "1" ELSE "0"

Prims == {"string", "int", "float", "bool", "date", "datetime"}

-----------------------------------------------------------------------------
(* Facts                                                                   *)

FieldFact(owner, f) == <<"F", owner, f.name, f.base, B(f.arr), B(f.req)>>

FieldFacts(owner, fs) ==
  UNION {{FieldFact(owner, f)}
         \cup (IF f.key THEN {<<"K", owner, f.name>>} ELSE {})
         \cup (IF f.base = "inline" THEN {FieldFact(owner \o "." \o f.name, g) : g \in Range(f.sub)} ELSE {})
         : f \in Range(fs)}

TypeByName(doc, n) == doc.types[CHOOSE i \in DOMAIN doc.types : doc.types[i].name = n]

RECURSIVE AllFields(_, _, _)
\* an object type carries the fields of the type it extends (n bounds the chain)
AllFields(doc, t, n) ==
  IF t.kind = "object" /\ t.base # "" /\ n > 0 THEN AllFields(doc, TypeByName(doc, t.base), n - 1) \o t.fields ELSE t.fields

TypeFacts(doc, t) ==
  (IF t.kind = "object" THEN {<<"T", t.name, "object">>} \cup FieldFacts(t.name, AllFields(doc, t, 4)) ELSE {})
  \cup (IF t.kind = "enum" THEN {<<"V", t.name, v.name>> : v \in Range(t.vals)} ELSE {})
  \cup (IF t.kind \in {"array", "prim", "enum"} THEN {<<"A", t.name, t.base, B(t.kind = "array")>>} ELSE {})

Op(e) == e.method \o " " \o e.path

EpFacts(e) ==
  {<<"E", Op(e)>>}
  \cup {<<"P", Op(e), p.name, "path", p.base, "0", "1">> : p \in Range(e.pparams)}
  \cup {<<"P", Op(e), p.name, p.loc, p.base, B(p.arr), B(p.req)>> : p \in Range(e.params)}
  \cup (IF e.body.base # "" THEN {<<"P", Op(e), "", "body", e.body.base, B(e.body.arr), "-">>} ELSE {})
  \cup {<<"R", Op(e), r.code, r.base, B(r.arr)>> : r \in Range(e.resps)}

Facts(doc) == UNION {TypeFacts(doc, t) : t \in Range(doc.types)} \cup UNION {EpFacts(e) : e \in Range(doc.eps)}

\* what a carrier format can express: only those facts are demanded of it
Kind(fact) == fact[1]
Carried(fmt, fact) ==
  CASE fmt \in {"xsd"} -> Kind(fact) \in {"T", "F", "A"}
    [] fmt \in {"spanner", "postgres", "mysql"} -> Kind(fact) \in {"T", "F", "K"}
    \* beyond the listed properties: records / messages with their fields, and enumeration members
    [] fmt \in {"avro", "proto"} -> Kind(fact) \in {"T", "F", "V"}
    [] OTHER -> Kind(fact) # "K"
\* enumeration members are demanded only of an exported document read directly (importers keep them as annotations at best)
\* (the Avro and Protocol Buffers importers write enumerations with their members)
Expected(fmt, doc) == {f \in Facts(doc) : Carried(fmt, f) /\ (Kind(f) # "V" \/ fmt \in {"avro", "proto"})}
ExpectedRead(fmt, doc) == {f \in Facts(doc) : Carried(fmt, f)}

\* the part of a document a format can express: what is rendered in that format, and what is expected of it
IsObj(doc, n) == \E t \in Range(doc.types) : t.name = n /\ t.kind = "object"
MapSeq(s, g(_)) == [i \in DOMAIN s |-> g(s[i])]
\* XSD has no named array type: such types go, and with them the fields that refer to them
XsdKeeps(doc, f) == ~\E t \in Range(doc.types) : t.kind = "array" /\ f.base = "ref:" \o t.name
XsdDoc(doc) == [types |-> MapSeq(SelectSeq(doc.types, LAMBDA t : t.kind # "array"),
                                 LAMBDA t : [t EXCEPT !.fields = SelectSeq(t.fields, LAMBDA f : XsdKeeps(doc, f))]),
                eps |-> <<>>]
SqlField(doc, f) == f.base \in Prims \/ \E t \in Range(doc.types) : t.kind = "object" /\ f.base = "ref:" \o t.name
SqlDoc(doc) ==
  [types |-> MapSeq(SelectSeq(doc.types, LAMBDA t : t.kind = "object"),
                    LAMBDA t : [t EXCEPT !.fields = MapSeq(SelectSeq(t.fields, LAMBDA f : SqlField(doc, f)),
                                                           LAMBDA f : [f EXCEPT !.arr = FALSE])]),
   eps |-> <<>>]
\* Avro: named records and enumerations; a field is a primitive or refers to one of those; no inline objects, no extension
RecKeeps(doc, prims, f) == f.base \in prims \/ \E t \in Range(doc.types) : t.kind \in {"object", "enum"} /\ f.base = "ref:" \o t.name
RecDoc(doc, prims, arrReq) ==
  [types |-> MapSeq(SelectSeq(doc.types, LAMBDA t : t.kind \in {"object", "enum"}),
                    LAMBDA t : [t EXCEPT !.base = IF t.kind = "object" THEN "" ELSE t.base,
                                         !.fields = MapSeq(SelectSeq(t.fields, LAMBDA f : RecKeeps(doc, prims, f)),
                                                           LAMBDA f : [f EXCEPT !.req = IF arrReq /\ f.arr THEN TRUE ELSE f.req])]),
   eps |-> <<>>]
AvroDoc(doc) == RecDoc(doc, Prims, FALSE)
\* Protocol Buffers (proto3): no date kinds, a repeated field cannot be optional
ProtoDoc(doc) == RecDoc(doc, {"string", "int", "float", "bool"}, TRUE)
\* the exportable subset: no inline objects (Sysl has no anonymous field types), scalar query and header parameters,
\* and at least one operation (an OpenAPI document must have a paths object)
Ping == [method |-> "GET", path |-> "/ping", pparams |-> <<>>, params |-> <<>>, body |-> [base |-> "", arr |-> FALSE, req |-> FALSE],
         resps |-> <<[code |-> "200", base |-> "string", arr |-> FALSE]>>]
ExportDoc(doc) ==
  [types |-> MapSeq(doc.types, LAMBDA t : [t EXCEPT !.fields = SelectSeq(t.fields, LAMBDA f : f.base # "inline")]),
   eps |-> IF doc.eps = <<>> THEN <<Ping>>
           ELSE MapSeq(doc.eps, LAMBDA e : [e EXCEPT !.params = MapSeq(e.params, LAMBDA q : [q EXCEPT !.arr = FALSE])])]

\* a document is well formed when names are unique and references resolve
WellFormed(doc) ==
  /\ \A i, j \in DOMAIN doc.types : doc.types[i].name = doc.types[j].name => i = j
  /\ \A t \in Range(doc.types) :
       /\ \A i, j \in DOMAIN t.fields : t.fields[i].name = t.fields[j].name => i = j
       /\ \A f \in Range(t.fields) :
            f.base \in Prims \cup {"inline"} \cup {"ref:" \o u.name : u \in Range(doc.types)}
  /\ \A i, j \in DOMAIN doc.eps : Op(doc.eps[i]) = Op(doc.eps[j]) => i = j

=============================================================================
