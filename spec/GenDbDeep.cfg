SPECIFICATION Spec
CONSTANTS
  MaxEdits = 1
  Deep = TRUE
  Sample = TRUE
INVARIANT CreateIsExact
CHECK_DEADLOCK FALSE
