SPECIFICATION GenSpec
CONSTANTS
  Files = {"r", "a", "b", "c", "d", "e"}
  Root = "r"
  Depths = {0, 3, 4, 5}
  MaxImports = 2
  AliasSet = {""}
  FaultKinds = {}
CHECK_DEADLOCK FALSE
