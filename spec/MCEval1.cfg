SPECIFICATION Spec
CONSTANTS
  MaxLets = 1
  Focus = "all"
  Sample = FALSE
INVARIANT Deterministic
PROPERTY Pure
CHECK_DEADLOCK FALSE
