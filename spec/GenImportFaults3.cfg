SPECIFICATION GenSpec
CONSTANTS
  Files = {"r", "a", "b"}
  Root = "r"
  Depths = {0}
  MaxImports = 1
  AliasSet = {""}
  FaultKinds = {"read", "importsyntax", "body", "foreign", "compiled"}
CHECK_DEADLOCK FALSE
