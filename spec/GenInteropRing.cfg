SPECIFICATION Spec
CONSTANTS
  Mode = "ring"
  Exh = {}
  MaxTypes = 3
  MaxEps = 0
  Awkward = FALSE
INVARIANT AlwaysWellFormed
CHECK_DEADLOCK FALSE
