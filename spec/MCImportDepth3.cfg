\* C05 depth limits, 3 files: exact unless a file is first claimed through a longer path
SPECIFICATION Spec
CONSTANTS
  Files = {"r", "a", "b"}
  Root = "r"
  Depths = {1, 2, 3}
  MaxImports = 2
  FaultKinds = {}
INVARIANTS TypeOK ReadOnce ExactUnlessClaimedDeeper
PROPERTY Terminates
CHECK_DEADLOCK FALSE
