SPECIFICATION Spec
CONSTANTS
  MaxEdits = 3
  Sample = TRUE
INVARIANT CreateIsExact
CHECK_DEADLOCK FALSE
