------------------------------ MODULE CodecTrace ------------------------------
EXTENDS Codec, Json
VARIABLES l
Trace == ndJsonDeserialize("trace.ndjson")
Ev == Trace[l]
Is(e) == l <= Len(Trace) /\ Trace[l].e = e
Say(kind, t, what) == PrintT(<<kind, ToJson([t |-> t, l |-> l, what |-> what])>>)
Adv == l' = l + 1
\* the verdict of the previous model is reported when the next one begins (and at the end)
Report == (l > 1 /\ bad # {}) => Say("VERDICT", Trace[l - 1].t, bad)
Begin == Is("begin") /\ Report /\ Compile([full |-> "", noloc |-> "", apps |-> ""]) /\ Adv
Model == Is("model") /\ Compile([full |-> Ev.full, noloc |-> Ev.noloc, apps |-> Ev.apps]) /\ Adv
Edited == Is("edited") /\ Edit([full |-> Ev.full, noloc |-> Ev.noloc, apps |-> Ev.apps]) /\ Adv
EvPrior == Is("prior") /\ Prior(Ev.fmt, Ev.compact, Ev.ok, Ev.full) /\ Adv
EvEncode == Is("encode") /\ Encode(Ev.fmt, Ev.compact, Ev.ok) /\ Adv
EvDecode == Is("decode") /\ Decode(Ev.fmt, Ev.compact, Ev.ok, Ev.full, Ev.noloc) /\ Adv
EvJson == Is("jsonvalid") /\ JsonValid(Ev.compact, Ev.ok) /\ Adv
EvReimport == Is("reimport") /\ Reimport(Ev.fmt, Ev.ok, Ev.apps) /\ Adv
EvForeign == Is("foreign") /\ Foreign(Ev.okjson, Ev.okyaml, Ev.appsjson, Ev.appsyaml) /\ Adv
\* a generated program the compiler refuses is not this family's concern
EvSkip == Is("compilefail") /\ UNCHANGED vars /\ Adv
End == l = Len(Trace) + 1 /\ Report /\ UNCHANGED vars /\ l' = l + 1
Next == Begin \/ Model \/ Edited \/ EvPrior \/ EvEncode \/ EvDecode \/ EvJson \/ EvReimport \/ EvSkip \/ EvForeign \/ End
TraceSpec == Init /\ l = 1 /\ [][Next]_<<vars, l>>
Consumed == TLCSet(1, l)
AllConsumed == TLCGet(1) >= Len(Trace) + 1
=============================================================================
