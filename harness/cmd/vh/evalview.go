package main

// Eval family (C10): renders a let-program as a Sysl view, evaluates it with the real
// evaluator and records the value of every bound variable after all lets have run.

import (
	"encoding/json"
	"fmt"
	"io"
	"os"
	"sort"
	"strings"

	"github.com/anz-bank/sysl/pkg/eval"
	"github.com/anz-bank/sysl/pkg/parse"
	"github.com/anz-bank/sysl/pkg/sysl"
	"github.com/sirupsen/logrus"

	"verifharness/internal/tr"
)

func init() { families["evalview"] = runEvalView }

type evVal struct {
	K string           `json:"k"`
	I *int64           `json:"i,omitempty"`
	S *string          `json:"s,omitempty"`
	B *bool            `json:"b,omitempty"`
	E []evVal          `json:"e"`
	M map[string]evVal `json:"m,omitempty"`
}

type evArg struct {
	Ref string `json:"ref,omitempty"`
	Lit *evVal `json:"lit,omitempty"`
}

type evLet struct {
	V    string  `json:"v"`
	Op   string  `json:"op"`
	Args []evArg `json:"args"`
}

type evScenario struct {
	ID   int     `json:"id"`
	Lets []evLet `json:"lets"`
	Reps int     `json:"reps"`
}

var evSetSpelling int

func litText(v evVal) string {
	switch v.K {
	case "int":
		return fmt.Sprint(*v.I)
	case "str":
		return fmt.Sprintf("%q", *v.S)
	case "bool":
		return fmt.Sprint(*v.B)
	case "list", "set":
		parts := []string{}
		for _, e := range v.E {
			parts = append(parts, litText(e))
		}
		if v.K == "list" {
			return "[" + strings.Join(parts, ", ") + "]"
		}
		// a set may be written with its elements in any order and more than once: every second set literal of two or
		// more elements is written backwards with its last element repeated in front
		if evSetSpelling++; evSetSpelling%2 == 0 && len(parts) > 1 {
			rev := []string{parts[0]}
			for i := len(parts) - 1; i >= 0; i-- {
				rev = append(rev, parts[i])
			}
			parts = rev
		}
		return "{" + strings.Join(parts, ", ") + "}"
	}
	return "?"
}

func argText(a evArg) string {
	if a.Ref != "" {
		return a.Ref
	}
	return litText(*a.Lit)
}

var evBin = map[string]string{"add": "+", "sub": "-", "mul": "*", "div": "/", "mod": "%", "lt": "<", "le": "<=",
	"gt": ">", "ge": ">=", "eq": "==", "ne": "!=", "cat": "+", "and": "&&", "or": "||", "lcat": "|", "union": "|",
	"in": "in", "notin": "!in"}

// isSet tells whether an argument denotes a set (needed to pick the transform's result type).
func evRender(lets []evLet, kinds map[string]string) string {
	var b strings.Builder
	b.WriteString("App:\n  !view v(p <: int) -> int:\n    p -> (:\n")
	ind := "      "
	for _, l := range lets {
		a := func(i int) string { return argText(l.Args[i]) }
		var e string
		switch l.Op {
		case "lit":
			e = a(0)
		case "neg":
			e = "-" + a(0)
		case "count":
			e = a(0) + " count"
		case "ite":
			e = "if " + a(0) + " then " + a(1) + " else " + a(2)
		case "where":
			e = a(0) + " where(. > " + a(1) + ")"
		case "mkmap":
			e = "p -> <int>(:\n" + ind + "  a = " + a(0) + "\n" + ind + "  b = " + a(1) + "\n" + ind + "  c = " + a(2) + "\n" + ind + ")"
		case "attr":
			e = a(0) + ".b"
		case "mapt":
			e = a(0) + " -> <sequence of int>(e:\n" + ind + "  entry = e\n" + ind + "  k = e.key\n" + ind + "  w = e.value + " + a(1) + "\n" + ind + ")"
		case "call":
			e = "H(" + a(0) + ", " + a(1) + ")"
		case "rodd":
			e = "Odd(" + a(0) + ").out"
		case "rsum":
			e = "Sum(" + a(0) + ").out"
		case "rall":
			e = "All(" + a(0) + ").out"
		case "rlist":
			e = "Upto(" + a(0) + ").out"
		case "sflat":
			// two lets: the rows, then their names flattened
			fmt.Fprintf(&b, "%slet %s_rows = %s -> <set of row>(w:\n%s  name = w\n%s)\n", ind, l.V, a(0), ind, ind)
			e = l.V + "_rows flatten(.name)"
		case "tset":
			e = a(0) + " -> <set of int>(x:\n" + ind + "  id = x\n" + ind + "  twice = x * 2\n" + ind + "  tag = " + a(1) + "\n" + ind + ")"
		case "tform", "tconst":
			coll := "sequence of"
			if kinds[l.V] == "set" {
				coll = "set of"
			}
			body := "y = x + " + a(1)
			if l.Op == "tconst" {
				body = "y = " + a(1)
			}
			e = a(0) + " -> <" + coll + " int>(x:\n" + ind + "  " + body + "\n" + ind + ")"
		default:
			e = a(0) + " " + evBin[l.Op] + " " + a(1)
		}
		b.WriteString(ind + "let " + l.V + " = " + e + "\n")
	}
	for _, l := range lets {
		b.WriteString(ind + "out_" + l.V + " = " + l.V + "\n")
	}
	b.WriteString("    )\n")
	// the helper view called by the operator "call": its own let is named like the caller's first variable
	b.WriteString("  !view H(a <: int, b <: int) -> int:\n    a -> (:\n      let v1 = a * 2\n      total = v1 + b\n    )\n")
	// recursive helper views: the recursive call is an operand of !=, +, && and |
	b.WriteString("  !view Odd(n <: int) -> bool:\n    n -> (:\n      out = if n == 0 then false else Odd(n - 1).out != true\n    )\n")
	b.WriteString("  !view Sum(n <: int) -> int:\n    n -> (:\n      out = if n == 0 then 0 else Sum(n - 1).out + n\n    )\n")
	b.WriteString("  !view All(n <: int) -> bool:\n    n -> (:\n      out = if n == 0 then true else All(n - 1).out && n > 0\n    )\n")
	b.WriteString("  !view Upto(n <: int) -> int:\n    n -> (:\n      out = if n == 0 then [0] else Upto(n - 1).out | [n]\n    )\n")
	return b.String()
}

func evConv(v *sysl.Value) evVal {
	switch x := v.GetValue().(type) {
	case *sysl.Value_I:
		return evVal{K: "int", I: &x.I}
	case *sysl.Value_S:
		return evVal{K: "str", S: &x.S}
	case *sysl.Value_B:
		return evVal{K: "bool", B: &x.B}
	case *sysl.Value_List_:
		out := evVal{K: "list", E: []evVal{}}
		for _, e := range x.List.GetValue() {
			out.E = append(out.E, evConv(e))
		}
		return out
	case *sysl.Value_Set:
		out := evVal{K: "set", E: []evVal{}}
		for _, e := range x.Set.GetValue() {
			out.E = append(out.E, evConv(e))
		}
		return out
	case *sysl.Value_Map_:
		out := evVal{K: "map", M: map[string]evVal{}}
		for k, e := range x.Map.GetItems() {
			out.M[k] = evConv(e)
		}
		return out
	case nil:
		return evVal{K: "nil"}
	}
	return evVal{K: "other"}
}

func runEvalView(in, out string, _ []string) error {
	w, err := tr.NewWriter(out)
	if err != nil {
		return err
	}
	defer w.Close()
	if os.Getenv("VH_LOG") == "" {
		logrus.SetOutput(io.Discard)
	}
	return tr.ReadLines(in, func(line []byte) error {
		var sc evScenario
		if err := json.Unmarshal(line, &sc); err != nil {
			return err
		}
		// the result kind of each let (needed for the transform's declared collection type)
		kinds := map[string]string{}
		for _, l := range sc.Lets {
			k := ""
			if l.Op == "tform" || l.Op == "tconst" || l.Op == "where" {
				if l.Args[0].Ref != "" {
					k = kinds[l.Args[0].Ref]
				} else {
					k = l.Args[0].Lit.K
				}
			} else if l.Op == "lcat" {
				k = "list"
			} else if l.Op == "union" || l.Op == "tset" || l.Op == "sflat" {
				k = "set"
			} else if l.Op == "lit" {
				k = l.Args[0].Lit.K
			}
			kinds[l.V] = k
		}
		text := evRender(sc.Lets, kinds)
		w.Emit(tr.Ev{"t": sc.ID, "e": "start", "lets": sc.Lets, "text": text})
		w.Flush() // evaluation failures exit the process
		m, err := parse.NewParser().ParseString(text)
		if err != nil {
			w.Emit(tr.Ev{"t": sc.ID, "e": "parsefail", "msg": err.Error()})
			return nil
		}
		reps := sc.Reps
		if reps == 0 {
			reps = 1
		}
		for r := 0; r < reps; r++ {
			var res evVal
			pan := ""
			func() {
				defer func() {
					if p := recover(); p != nil {
						pan = fmt.Sprint(p)
					}
				}()
				s := eval.Scope{}
				s.AddInt("p", 1)
				res = evConv(eval.EvaluateView(m, "App", "v", s))
			}()
			if pan != "" {
				w.Emit(tr.Ev{"t": sc.ID, "e": "panic", "msg": pan})
				return nil
			}
			vals := map[string]evVal{}
			names := []string{}
			for k, v := range res.M {
				vals[strings.TrimPrefix(k, "out_")] = v
				names = append(names, k)
			}
			sort.Strings(names)
			w.Emit(tr.Ev{"t": sc.ID, "e": "result", "rep": r + 1, "vals": vals})
		}
		return nil
	})
}
