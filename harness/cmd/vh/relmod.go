package main

// Relmod family (C17): builds the relational form of a compiled model with relmod.Normalize
// (guarded) and records its rows next to an independent census of the module.

import (
	"context"
	"encoding/json"
	"fmt"
	"io"
	"reflect"
	"sort"
	"strconv"
	"strings"
	"time"

	"github.com/anz-bank/sysl/pkg/arrai/relmod"
	"github.com/anz-bank/sysl/pkg/sysl"
	"github.com/sirupsen/logrus"

	"verifharness/internal/project"
	"verifharness/internal/render"
	"verifharness/internal/tr"
)

func init() { families["relmod"] = runRelmod }

type rmScenario struct {
	ID    int           `json:"id"`
	Decls []render.Decl `json:"decls"`
	Seed  int64         `json:"seed"`
	Text  bool          `json:"text"`
}

func join(p []string) string { return strings.Join(p, " :: ") }

func idx(p []int) string {
	s := make([]string, len(p))
	for i, x := range p {
		s[i] = strconv.Itoa(x)
	}
	return strings.Join(s, ".")
}

func rmTypeStr(t interface{}) string {
	switch x := t.(type) {
	case nil:
		return ""
	case relmod.TypePrimitive:
		return strings.ToLower(x.Primitive)
	case relmod.TypeRef:
		s := "ref:"
		if len(x.AppName) > 0 {
			s += join(x.AppName) + "/"
		}
		return s + strings.Join(x.TypePath, ".")
	case relmod.TypeSet:
		return "set(" + rmTypeStr(x.Set) + ")"
	case relmod.TypeSequence:
		return "seq(" + rmTypeStr(x.Sequence) + ")"
	case relmod.TypeTuple:
		return "tuple"
	}
	return fmt.Sprintf("?%T", t)
}

// rmRows flattens the schema into fact rows.
func rmRows(s *relmod.Schema) [][]string {
	var rows [][]string
	add := func(f ...string) { rows = append(rows, f) }
	for _, a := range s.App {
		add("app", join(a.AppName))
		if a.AppLongName != "" {
			add("app.long", join(a.AppName), a.AppLongName)
		}
	}
	for _, m := range s.Mixin {
		add("mixin", join(m.AppName), join(m.MixinName))
	}
	for _, e := range s.Ep {
		add("ep", join(e.AppName), e.EpName)
		if e.Rest.Method != "" || e.Rest.Path != "" {
			add("ep.rest", join(e.AppName), e.EpName, e.Rest.Method, e.Rest.Path)
		}
	}
	for _, p := range s.Param {
		add("param", join(p.AppName), p.EpName, p.ParamLoc, strconv.Itoa(p.ParamIndex), p.ParamName, rmTypeStr(p.ParamType)+optq2(p.ParamOpt))
	}
	for _, st := range s.Stmt {
		kind, payload := "other", ""
		switch {
		case st.StmtAction != "":
			kind, payload = "action", st.StmtAction
		case st.StmtCall != nil:
			kind = "call"
			payload = fmt.Sprint(joinAny(st.StmtCall["appName"]), " <- ", st.StmtCall["epName"])
		case st.StmtCond != nil:
			kind, payload = "cond", fmt.Sprint(st.StmtCond["test"])
		case st.StmtLoop != nil:
			kind, payload = "loop", fmt.Sprint(st.StmtLoop["mode"], ":", st.StmtLoop["criterion"])
		case st.StmtLoopN != nil:
			kind, payload = "loopn", fmt.Sprint(st.StmtLoopN["count"])
		case st.StmtForeach != nil:
			kind, payload = "foreach", fmt.Sprint(st.StmtForeach["coll"])
		case st.StmtAlt != nil:
			kind, payload = "alt", fmt.Sprint(st.StmtAlt["choice"])
		case st.StmtGroup != nil:
			kind, payload = "group", fmt.Sprint(st.StmtGroup["title"])
		case !reflect.DeepEqual(st.StmtRet, relmod.StatementReturn{}):
			kind, payload = "ret", st.StmtRet.Status+"|"+rmTypeStr(st.StmtRet.Type)
		}
		add("stmt", join(st.AppName), st.EpName, idx(st.StmtIndex), kind, payload)
	}
	for _, e := range s.Event {
		add("event", join(e.AppName), e.EventName)
	}
	for _, t := range s.Type {
		add("type", join(t.AppName), t.TypeName)
	}
	for _, f := range s.Field {
		add("field", join(f.AppName), f.TypeName, f.FieldName, rmTypeStr(f.FieldType)+optq2(f.FieldOpt))
		c := f.FieldConstraint
		if c.Length.Max != 0 || c.Length.Min != 0 || c.Precision != 0 || c.Scale != 0 {
			add("field.constraint", join(f.AppName), f.TypeName, f.FieldName,
				fmt.Sprintf("len=%d..%d,prec=%d.%d", c.Length.Min, c.Length.Max, c.Precision, c.Scale))
		}
	}
	for _, t := range s.Table {
		pk := append([]string{}, t.Pk...)
		sort.Strings(pk)
		add("table", join(t.AppName), t.TypeName, strings.Join(pk, ","))
	}
	for _, a := range s.Alias {
		add("alias", join(a.AppName), a.TypeName, rmTypeStr(a.AliasType))
	}
	for _, e := range s.Enum {
		for k, v := range e.EnumItems {
			add("enum", join(e.AppName), e.TypeName, k, strconv.FormatInt(v, 10))
		}
	}
	for _, t := range s.Tag.App {
		add("app.tag", join(t.AppName), t.AppTag)
	}
	for _, t := range s.Tag.Type {
		add("type.tag", join(t.AppName), t.TypeName, t.TypeTag)
	}
	for _, t := range s.Tag.Field {
		add("field.tag", join(t.AppName), t.TypeName, t.FieldName, t.FieldTag)
	}
	for _, t := range s.Tag.Ep {
		add("ep.tag", join(t.AppName), t.EpName, t.EpTag)
	}
	// the tags and annotations of an event are rows of their own relations: the same facts about the event's endpoint
	for _, t := range s.Tag.Event {
		add("ep.tag", join(t.AppName), t.EventName, t.EventTag)
	}
	for _, a := range s.Anno.Event {
		add("ep.anno", join(a.AppName), a.EventName, a.EventAnnoName, annoStr(a.EventAnnoValue))
	}
	for _, a := range s.Anno.App {
		add("app.anno", join(a.AppName), a.AppAnnoName, annoStr(a.AppAnnoValue))
	}
	for _, a := range s.Anno.Type {
		add("type.anno", join(a.AppName), a.TypeName, a.TypeAnnoName, annoStr(a.TypeAnnoValue))
	}
	for _, a := range s.Anno.Field {
		add("field.anno", join(a.AppName), a.TypeName, a.FieldName, a.FieldAnnoName, annoStr(a.FieldAnnoValue))
	}
	for _, a := range s.Anno.Ep {
		add("ep.anno", join(a.AppName), a.EpName, a.EpAnnoName, annoStr(a.EpAnnoValue))
	}
	return rows
}

// retCensus states what a return payload "status <: type" denotes; unqualified type names belong to
// the enclosing application.  Shapes outside this small grammar are counted, not compared ("*").
func retCensus(app, payload string) string {
	prims := map[string]bool{"int": true, "string": true, "bool": true, "float": true, "decimal": true, "date": true,
		"datetime": true, "bytes": true, "any": true}
	parts := strings.SplitN(payload, " <: ", 2)
	status := strings.TrimSpace(parts[0])
	if strings.ContainsAny(status, " [\"") {
		return "*"
	}
	if len(parts) == 1 {
		return status + "|"
	}
	t := strings.TrimSpace(parts[1])
	wrap := ""
	switch {
	case strings.HasPrefix(t, "sequence of "):
		wrap, t = "seq", strings.TrimPrefix(t, "sequence of ")
	case strings.HasPrefix(t, "set of "):
		wrap, t = "set", strings.TrimPrefix(t, "set of ")
	}
	if strings.ContainsAny(t, " .[(?") {
		return "*"
	}
	inner := "ref:" + app + "/" + t
	if prims[t] {
		inner = t
	}
	if wrap != "" {
		inner = wrap + "(" + inner + ")"
	}
	return status + "|" + inner
}

func annoStr(v interface{}) string {
	s := fmt.Sprint(v)
	if s == "{}" { // the empty string in arr.ai notation
		return ""
	}
	return strings.Trim(s, "'")
}

func joinAny(v interface{}) string {
	if p, ok := v.([]string); ok {
		return join(p)
	}
	return fmt.Sprint(v)
}

func optq2(b bool) string {
	if b {
		return "?"
	}
	return ""
}

// rmCensus is the independent count of the module in the same vocabulary.
func rmCensus(m *sysl.Module) [][]string {
	var rows [][]string
	add := func(f ...string) { rows = append(rows, f) }
	attrStr := func(a *sysl.Attribute) string {
		switch x := a.GetAttribute().(type) {
		case *sysl.Attribute_S:
			return x.S
		case *sysl.Attribute_I:
			return strconv.FormatInt(x.I, 10)
		}
		return "?"
	}
	attrs := func(kind string, key []string, as map[string]*sysl.Attribute) {
		for k, a := range as {
			if k == "patterns" {
				for _, e := range a.GetA().GetElt() {
					add(append(append([]string{kind + ".tag"}, key...), e.GetS())...)
				}
				continue
			}
			if arr, isArr := a.GetAttribute().(*sysl.Attribute_A); isArr {
				// an array of strings, in the notation of the relational model: ['a', 'b']
				var es []string
				flat := true
				for _, e := range arr.A.GetElt() {
					if _, ok := e.GetAttribute().(*sysl.Attribute_S); !ok {
						flat = false
					}
					es = append(es, "'"+e.GetS()+"'")
				}
				if flat {
					add(append(append([]string{kind + ".anno"}, key...), k, "["+strings.Join(es, ", ")+"]")...)
				}
				continue
			}
			add(append(append([]string{kind + ".anno"}, key...), k, attrStr(a))...)
		}
	}
	curApp := ""
	ty := func(t *sysl.Type) string {
		s := project.TypeStr(t)
		// relmod qualifies local references with the application
		if strings.Contains(s, "ref:") && !strings.Contains(s, "/") {
			s = strings.Replace(s, "ref:", "ref:"+curApp+"/", 1)
		}
		// relmod keeps constraints in a separate relation and the optional flag on the owner
		if i := strings.Index(s, "{"); i >= 0 {
			j := strings.Index(s, "}")
			s = s[:i] + s[j+1:]
		}
		return s
	}
	var stmts func(app, ep string, prefix []int, ss []*sysl.Statement)
	stmts = func(app, ep string, prefix []int, ss []*sysl.Statement) {
		for i, s := range ss {
			p := append(append([]int{}, prefix...), i)
			var kids []*sysl.Statement
			switch x := s.GetStmt().(type) {
			case *sysl.Statement_Action:
				if x.Action.GetAction() == "..." {
					continue
				}
				add("stmt", app, ep, idx(p), "action", x.Action.GetAction())
			case *sysl.Statement_Call:
				add("stmt", app, ep, idx(p), "call", project.AppName(x.Call.GetTarget())+" <- "+x.Call.GetEndpoint())
			case *sysl.Statement_Cond:
				add("stmt", app, ep, idx(p), "cond", x.Cond.GetTest())
				kids = x.Cond.GetStmt()
			case *sysl.Statement_Loop:
				add("stmt", app, ep, idx(p), "loop", x.Loop.GetMode().String()+":"+x.Loop.GetCriterion())
				kids = x.Loop.GetStmt()
			case *sysl.Statement_Foreach:
				add("stmt", app, ep, idx(p), "foreach", x.Foreach.GetCollection())
				kids = x.Foreach.GetStmt()
			case *sysl.Statement_Group:
				add("stmt", app, ep, idx(p), "group", x.Group.GetTitle())
				kids = x.Group.GetStmt()
			case *sysl.Statement_Alt:
				// an alternative is a forest: one row per choice, no row for the statement itself
				for j, c := range x.Alt.GetChoice() {
					cp := append(append([]int{}, p...), j)
					add("stmt", app, ep, idx(cp), "alt", c.GetCond())
					stmts(app, ep, cp, c.GetStmt())
				}
			case *sysl.Statement_Ret:
				add("stmt", app, ep, idx(p), "ret", retCensus(app, x.Ret.GetPayload()))
			}
			stmts(app, ep, p, kids)
		}
	}
	for _, an := range sortedAppNames(m) {
		a := m.GetApps()[an]
		name := project.AppName(a.GetName())
		add("app", name)
		if a.GetLongName() != "" {
			add("app.long", name, a.GetLongName())
		}
		attrs("app", []string{name}, a.GetAttrs())
		for _, mx := range a.GetMixin2() {
			add("mixin", name, project.AppName(mx.GetName()))
		}
		for tn, t := range a.GetTypes() {
			attrs("type", []string{name, tn}, t.GetAttrs())
			add("type", name, tn)
			curApp = name
			var defs map[string]*sysl.Type
			switch x := t.GetType().(type) {
			case *sysl.Type_Tuple_:
				defs = x.Tuple.GetAttrDefs()
			case *sysl.Type_Relation_:
				defs = x.Relation.GetAttrDefs()
				pk := append([]string{}, x.Relation.GetPrimaryKey().GetAttrName()...)
				sort.Strings(pk)
				add("table", name, tn, strings.Join(pk, ","))
			case *sysl.Type_Enum_:
				for k, v := range x.Enum.GetItems() {
					add("enum", name, tn, k, strconv.FormatInt(v, 10))
				}
			case *sysl.Type_OneOf_:
				add("union", name, tn)
			default:
				add("alias", name, tn, ty(t))
			}
			for fn, f := range defs {
				add("field", name, tn, fn, ty(f))
				attrs("field", []string{name, tn, fn}, f.GetAttrs())
				// the declared length / precision of a plain field (the constraints of the elements of a collection
				// are not compared: the relational form has one constraint per field)
				ct := f
				var lmin, lmax int64
				var prec, scale int32
				for _, c := range ct.GetConstraint() {
					if l := c.GetLength(); l != nil {
						lmin, lmax = l.GetMin(), l.GetMax()
					}
					if c.GetPrecision() != 0 || c.GetScale() != 0 {
						prec, scale = c.GetPrecision(), c.GetScale()
					}
				}
				if lmin != 0 || lmax != 0 || prec != 0 || scale != 0 {
					add("field.constraint", name, tn, fn, fmt.Sprintf("len=%d..%d,prec=%d.%d", lmin, lmax, prec, scale))
				}
			}
		}
		for en, e := range a.GetEndpoints() {
			if e.GetIsPubsub() {
				add("event", name, en)
			} else {
				add("ep", name, en)
			}
			if r := e.GetRestParams(); r != nil {
				add("ep.rest", name, en, r.GetMethod().String(), r.GetPath())
			}
			attrs("ep", []string{name, en}, e.GetAttrs())
			// parameters: a method parameter is located by the first tag it was declared with ("method" if it has none),
			// the variables of a REST path by "path", the query parameters by "query"; each with its position
			curApp = name
			for pi, p := range e.GetParam() {
				loc := "method"
				if pats := p.GetType().GetAttrs()["patterns"].GetA().GetElt(); len(pats) > 0 {
					loc = pats[0].GetS()
				}
				add("param", name, en, loc, strconv.Itoa(pi), p.GetName(), ty(p.GetType()))
			}
			if r := e.GetRestParams(); r != nil {
				for pi, p := range r.GetUrlParam() {
					add("param", name, en, "path", strconv.Itoa(pi), p.GetName(), ty(p.GetType()))
				}
				for pi, p := range r.GetQueryParam() {
					add("param", name, en, "query", strconv.Itoa(pi), p.GetName(), ty(p.GetType()))
				}
			}
			stmts(name, en, nil, e.GetStmt())
		}
	}
	return rows
}

func runRelmod(in, out string, _ []string) error {
	w, err := tr.NewWriter(out)
	if err != nil {
		return err
	}
	defer w.Close()
	logrus.SetOutput(io.Discard)
	return tr.ReadLines(in, func(line []byte) error {
		var sc rmScenario
		if err := json.Unmarshal(line, &sc); err != nil {
			return err
		}
		res := render.Render(sc.Decls, render.Layout{Seed: sc.Seed, Canonical: true})
		cr := compileFiles(res.Files, "main.sysl")
		begin := tr.Ev{"t": sc.ID, "e": "begin"}
		if sc.Text {
			begin["text"] = res.Files[0].Text()
		}
		if cr.panic != "" || cr.err != nil {
			w.EmitAll([]tr.Ev{begin, {"t": sc.ID, "e": "compilefail", "msg": fmt.Sprint(cr.panic, cr.err)}})
			return nil
		}
		begin["census"] = rmCensus(cr.m)
		w.Emit(begin)
		type res2 struct {
			rows [][]string
			err  error
			pan  string
		}
		run := func() res2 {
			ch := make(chan res2, 1)
			go func() {
				var r res2
				defer func() {
					if p := recover(); p != nil {
						r.pan = fmt.Sprint(p)
					}
					ch <- r
				}()
				s, err := relmod.Normalize(context.Background(), cr.m)
				r.err = err
				if err == nil {
					r.rows = rmRows(s)
				}
			}()
			select {
			case r := <-ch:
				return r
			case <-time.After(30 * time.Second):
				return res2{pan: "timeout"}
			}
		}
		r1 := run()
		switch {
		case r1.pan == "timeout":
			w.Emit(tr.Ev{"t": sc.ID, "e": "timeout"})
		case r1.pan != "":
			w.Emit(tr.Ev{"t": sc.ID, "e": "panic", "msg": r1.pan})
		case r1.err != nil:
			w.Emit(tr.Ev{"t": sc.ID, "e": "refused", "msg": r1.err.Error()})
		default:
			r2 := run()
			a, _ := json.Marshal(sortRows(r1.rows))
			b, _ := json.Marshal(sortRows(r2.rows))
			w.Emit(tr.Ev{"t": sc.ID, "e": "rows", "rows": r1.rows, "again": string(a) == string(b)})
		}
		return nil
	})
}

func sortRows(r [][]string) [][]string {
	out := append([][]string{}, r...)
	sort.Slice(out, func(i, j int) bool { return strings.Join(out[i], "\x00") < strings.Join(out[j], "\x00") })
	return out
}
