package main

import (
	"google.golang.org/protobuf/reflect/protoreflect"
)

// clearLocs removes every source_context / source_contexts field, recursively.
func clearLocs(m protoreflect.Message) {
	m.Range(func(fd protoreflect.FieldDescriptor, v protoreflect.Value) bool {
		name := string(fd.Name())
		if name == "source_context" || name == "source_contexts" {
			m.Clear(fd)
			return true
		}
		switch {
		case fd.IsMap():
			if fd.MapValue().Kind() == protoreflect.MessageKind {
				v.Map().Range(func(_ protoreflect.MapKey, mv protoreflect.Value) bool {
					clearLocs(mv.Message())
					return true
				})
			}
		case fd.IsList():
			if fd.Kind() == protoreflect.MessageKind {
				l := v.List()
				for i := 0; i < l.Len(); i++ {
					clearLocs(l.Get(i).Message())
				}
			}
		case fd.Kind() == protoreflect.MessageKind:
			clearLocs(v.Message())
		}
		return true
	})
}
