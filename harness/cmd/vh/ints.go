package main

// IntsDiagram family (C14): builds a model from a call relation, runs the real integration
// builder and view generator (guarded, bounded) and records the arrows.

import (
	"encoding/json"
	"fmt"
	"io"
	"regexp"
	"sort"
	"strings"
	"time"

	"github.com/anz-bank/sysl/pkg/cmdutils"
	"github.com/anz-bank/sysl/pkg/integrationdiagram"
	mermaidints "github.com/anz-bank/sysl/pkg/mermaid/integrationdiagram"
	"github.com/anz-bank/sysl/pkg/parse"
	"github.com/anz-bank/sysl/pkg/sysl"
	"github.com/anz-bank/sysl/pkg/syslutil"
	"github.com/sirupsen/logrus"

	"verifharness/internal/tr"
)

func init() { families["ints"] = runInts }

type inScenario struct {
	ID     int        `json:"id"`
	Apps   []string   `json:"apps"`
	Calls  [][]string `json:"calls"` // [source, target]
	Listed []string   `json:"listed"`
	Excl   []string   `json:"excl"`
	Pass   []string   `json:"pass"`
	Human  []string   `json:"human"` // applications tagged ~human
	Hid    []string   `json:"hid"`   // applications whose endpoint is tagged ~hidden
	View   string     `json:"view"`  // plain | clustered | epa
	Text   bool       `json:"text"`
	Views  []inView   `json:"views"` // further views of the same project (generated in the same run)
	// Mermaid: also run the Mermaid integration generator on the model
	Mermaid bool `json:"mermaid"`
}

type inView struct {
	Listed []string `json:"listed"`
	Excl   []string `json:"excl"`
	Pass   []string `json:"pass"`
}

func (sc inScenario) allViews() []inView {
	return append([]inView{{sc.Listed, sc.Excl, sc.Pass}}, sc.Views...)
}

func inRender(sc inScenario) string {
	var b strings.Builder
	bySrc := map[string][]string{}
	for _, c := range sc.Calls {
		bySrc[c[0]] = append(bySrc[c[0]], c[1])
	}
	in := func(xs []string, x string) bool {
		for _, y := range xs {
			if y == x {
				return true
			}
		}
		return false
	}
	for _, a := range sc.Apps {
		at, et := "", ""
		if in(sc.Human, a) {
			at = " [~human]"
		}
		if in(sc.Hid, a) {
			et = " [~hidden]"
		}
		fmt.Fprintf(&b, "%s%s:\n    e%s:\n", a, at, et)
		ts := bySrc[a]
		if len(ts) == 0 {
			b.WriteString("        ...\n")
		}
		for i, t := range ts {
			tgt := t
			if t == a {
				tgt = "."
			}
			// the statement around a call is a surface choice: bare, inside blocks of every kind, after a return in the
			// same block (a return declares a response, it ends nothing), in an else branch
			switch (i + sc.ID) % 8 {
			case 0:
				fmt.Fprintf(&b, "        %s <- e\n", tgt)
			case 1:
				fmt.Fprintf(&b, "        if ready:\n            %s <- e\n", tgt)
			case 2:
				fmt.Fprintf(&b, "        for each x in xs:\n            one of:\n                first:\n                    %s <- e\n                second:\n                    skip it\n", tgt)
			case 3:
				fmt.Fprintf(&b, "        until done:\n            grouped work:\n                %s <- e\n", tgt)
			case 4:
				fmt.Fprintf(&b, "        return ok\n        %s <- e\n", tgt)
			case 5:
				fmt.Fprintf(&b, "        if ready:\n            return ok <: string\n            %s <- e\n", tgt)
			case 6:
				fmt.Fprintf(&b, "        if ready:\n            do it\n        else:\n            %s <- e\n", tgt)
			case 7:
				fmt.Fprintf(&b, "        while busy:\n            %s <- e\n            return done\n", tgt)
			}
		}
		b.WriteString("\n")
	}
	q := func(xs []string) string {
		var ps []string
		for _, x := range xs {
			ps = append(ps, fmt.Sprintf("%q", x))
		}
		return "[" + strings.Join(ps, ", ") + "]"
	}
	b.WriteString("Proj:\n")
	for k, v := range sc.allViews() {
		var attrs []string
		if len(v.Excl) > 0 {
			attrs = append(attrs, "exclude="+q(v.Excl))
		}
		if len(v.Pass) > 0 {
			attrs = append(attrs, "passthrough="+q(v.Pass))
		}
		a := ""
		if len(attrs) > 0 {
			a = " [" + strings.Join(attrs, ", ") + "]"
		}
		fmt.Fprintf(&b, "    view%d%s:\n", k+1, a)
		if len(v.Listed) == 0 {
			b.WriteString("        ...\n")
		}
		for _, l := range v.Listed {
			fmt.Fprintf(&b, "        %s\n", l)
		}
	}
	return b.String()
}

var (
	reIntDecl  = regexp.MustCompile(`^(?:\[(.*)\]|(?:state|component|interface|rectangle|node) "(.*)") as (\S+)`)
	reIntArrow = regexp.MustCompile(`^(\S+) (-+\[?[^\]]*\]?-*>|--+>|\.\.+>|-+>) (\S+)`)
)

// inArrows extracts alias declarations and arrows from the PlantUML component diagram.
func inArrows(text string) (arrows [][]string, unknown []string) {
	alias := map[string]string{}
	for _, raw := range strings.Split(text, "\n") {
		l := strings.TrimSpace(raw)
		if m := reIntDecl.FindStringSubmatch(l); m != nil {
			name := m[1]
			if name == "" {
				name = m[2]
			}
			alias[m[3]] = name
			continue
		}
		if m := reIntArrow.FindStringSubmatch(l); m != nil {
			a, ok1 := alias[m[1]]
			t, ok2 := alias[m[3]]
			if ok1 && ok2 {
				arrows = append(arrows, []string{a, t})
			} else {
				unknown = append(unknown, l)
			}
		}
	}
	return arrows, unknown
}

var (
	reEpaApp   = regexp.MustCompile(`^state "(.*)" as (X_\d+)(?: <<\w+>>)? \{$`)
	reEpaState = regexp.MustCompile(`^state "(.*)" as (_\d+)(?: <<\w+>>)?$`)
	reEpaArrow = regexp.MustCompile(`^(_\d+) -\[#\w+\]-?> (_\d+)`)
)

// inArrowsEPA reads an endpoint-analysis diagram: every endpoint state sits in the state of its application; an arrow
// between states of two applications is reported as an arrow between the applications.
func inArrowsEPA(text string) (arrows [][]string, unknown []string) {
	owner := map[string]string{}
	cur := ""
	seen := map[string]bool{}
	for _, raw := range strings.Split(text, "\n") {
		l := strings.TrimSpace(raw)
		switch {
		case reEpaApp.MatchString(l):
			cur = reEpaApp.FindStringSubmatch(l)[1]
		case l == "}":
			cur = ""
		case reEpaState.MatchString(l):
			if cur == "" {
				unknown = append(unknown, l)
				continue
			}
			owner[reEpaState.FindStringSubmatch(l)[2]] = cur
		case reEpaArrow.MatchString(l):
			g := reEpaArrow.FindStringSubmatch(l)
			a, ok1 := owner[g[1]]
			t, ok2 := owner[g[2]]
			if !ok1 || !ok2 {
				unknown = append(unknown, l)
				continue
			}
			if a != t && !seen[a+"\x00"+t] {
				seen[a+"\x00"+t] = true
				arrows = append(arrows, []string{a, t})
			}
		case strings.Contains(l, "->") || strings.Contains(l, "-[#"):
			unknown = append(unknown, l)
		}
	}
	return arrows, unknown
}

type inViewResult struct {
	deps  [][]string
	final []string
	text  string
}

type inResult struct {
	views []inViewResult
	err   error
	pan   string
}

func inRun(m *sysl.Module, sc inScenario) inResult {
	ch := make(chan inResult, 1)
	go func() {
		var r inResult
		defer func() {
			if p := recover(); p != nil {
				r.pan = fmt.Sprint(p)
			}
			ch <- r
		}()
		n := len(sc.allViews())
		r.views = make([]inViewResult, n)
		for k := 0; k < n; k++ {
			ep := m.GetApps()["Proj"].GetEndpoints()[fmt.Sprintf("view%d", k+1)]
			excl := syslutil.MakeStrSet("Proj").Union(syslutil.MakeStrSetFromAttr("exclude", ep.GetAttrs()))
			pass := syslutil.MakeStrSetFromAttr("passthrough", ep.GetAttrs())
			b := integrationdiagram.MakeBuilderfromStmt(m, ep.GetStmt(), excl, pass)
			for _, d := range b.DepsOut {
				r.views[k].deps = append(r.views[k].deps, []string{d.Self.Name, d.Self.Endpoint, d.Target.Name, d.Target.Endpoint})
			}
			r.views[k].final = append([]string{}, b.FinalApps...)
			sort.Strings(r.views[k].final)
		}
		logger := logrus.New()
		logger.SetOutput(io.Discard)
		p := &cmdutils.CmdContextParamIntgen{Project: "Proj", Output: "%(epname).png", Title: "t",
			Clustered: sc.View == "clustered", EPA: sc.View == "epa"}
		out, err := integrationdiagram.GenerateIntegrations(p, m, logger)
		r.err = err
		for k := 0; k < n; k++ {
			r.views[k].text = out[fmt.Sprintf("view%d.png", k+1)]
		}
	}()
	select {
	case r := <-ch:
		return r
	case <-time.After(20 * time.Second):
		return inResult{pan: "timeout"}
	}
}

var reMermaidArrow = regexp.MustCompile(`^\s*\S+\["(.*)"\] --> \S+\["(.*)"\]\s*$`)

// inMermaid runs the Mermaid integration generator (no views: the whole model, or what one application reaches)
// and reads the arrows back.  kind is "full" or the name of the start application.
func inMermaid(m *sysl.Module, kind string) tr.Ev {
	ev := tr.Ev{"e": "mermaid", "kind": kind, "ok": false, "arrows": [][]string{}}
	ch := make(chan struct{}, 1)
	go func() {
		defer func() {
			if p := recover(); p != nil {
				ev["msg"] = "panic: " + fmt.Sprint(p)
			}
			ch <- struct{}{}
		}()
		var text string
		var err error
		if kind == "full" {
			text, err = mermaidints.GenerateFullIntegrationDiagram(m)
		} else {
			text, err = mermaidints.GenerateIntegrationDiagram(m, kind)
		}
		if err != nil {
			ev["msg"] = err.Error()
			return
		}
		arrows := [][]string{}
		for _, l := range strings.Split(text, "\n") {
			if mm := reMermaidArrow.FindStringSubmatch(l); mm != nil {
				arrows = append(arrows, []string{mm[1], mm[2]})
			}
		}
		ev["ok"], ev["arrows"] = true, arrows
	}()
	select {
	case <-ch:
	case <-time.After(20 * time.Second):
		ev["msg"] = "timeout"
	}
	return ev
}

func runInts(in, out string, _ []string) error {
	w, err := tr.NewWriter(out)
	if err != nil {
		return err
	}
	defer w.Close()
	logrus.SetOutput(io.Discard)
	return tr.ReadLines(in, func(line []byte) error {
		var sc inScenario
		if err := json.Unmarshal(line, &sc); err != nil {
			return err
		}
		text := inRender(sc)
		views := sc.allViews()
		tid := func(k int) int { return sc.ID*10 + k }
		begin := func(k int) tr.Ev {
			v := views[k]
			return tr.Ev{"t": tid(k), "e": "begin", "scn": sc.ID, "viewno": k + 1, "calls": sc.Calls, "listed": v.Listed, "excl": v.Excl, "pass": v.Pass, "view": sc.View,
				"human": append([]string{}, sc.Human...), "hid": append([]string{}, sc.Hid...)}
		}
		b0 := begin(0)
		if sc.Text {
			b0["text"] = text
		}
		w.Emit(b0)
		w.Flush() // a pass-through cycle may exhaust the stack, which kills the process
		m, err := parse.NewParser().ParseString(text)
		if err != nil {
			w.Emit(tr.Ev{"t": tid(0), "e": "compilefail", "msg": err.Error()})
			return nil
		}
		if sc.Mermaid {
			// beyond C14: the Mermaid generator of the same diagram kind, judged by the same call relation
			for _, kind := range append([]string{"full"}, sc.Apps...) {
				ev := inMermaid(m, kind)
				ev["t"] = tid(0)
				w.Emit(ev)
			}
		}
		r := inRun(m, sc)
		switch {
		case r.pan == "timeout":
			w.Emit(tr.Ev{"t": tid(0), "e": "timeout"})
		case r.pan != "":
			w.Emit(tr.Ev{"t": tid(0), "e": "panic", "msg": r.pan})
		case r.err != nil:
			w.Emit(tr.Ev{"t": tid(0), "e": "error", "msg": r.err.Error()})
		default:
			for k, vr := range r.views {
				if k > 0 {
					w.Emit(begin(k))
				}
				arrows, unknown := inArrows(vr.text)
				if sc.View == "epa" {
					arrows, unknown = inArrowsEPA(vr.text)
				}
				if arrows == nil {
					arrows = [][]string{}
				}
				if unknown == nil {
					unknown = []string{}
				}
				ev := tr.Ev{"t": tid(k), "e": "deps", "edges": vr.deps, "final": vr.final, "arrows": arrows, "unknown": unknown,
					"hastext": vr.text != ""}
				if sc.Text {
					ev["puml"] = vr.text
				}
				w.Emit(ev)
			}
		}
		return nil
	})
}
