package main

// probe: compile a .sysl file from the OS file system and print the projected facts.

import (
	"fmt"
	"os"
	"path/filepath"

	"github.com/anz-bank/sysl/pkg/parse"
	"github.com/spf13/afero"

	"verifharness/internal/project"
)

func init() { families["probe"] = runProbe }

func runProbe(_, _ string, args []string) error {
	for _, f := range args {
		abs, _ := filepath.Abs(f)
		fs := afero.NewBasePathFs(afero.NewOsFs(), filepath.Dir(abs))
		m, err := parse.NewParser().ParseFromFs(filepath.Base(abs), fs)
		if err != nil {
			fmt.Println("ERROR:", err)
			continue
		}
		p := project.Module(m, project.Options{Locs: os.Getenv("LOCS") != ""})
		for _, s := range project.Strings(p.Facts) {
			fmt.Println(s)
		}
		for _, s := range project.Strings(p.Locs) {
			fmt.Println(s)
		}
	}
	return nil
}
