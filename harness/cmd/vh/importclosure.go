package main

// Import-closure family (C05, C06): replays TLC-generated schedules of the
// collector's goroutines against the real parse.Parser, or lets them run free,
// and records claim / read / return events.

import (
	"context"
	"encoding/json"
	"errors"
	"fmt"
	"io"
	"math/rand"
	"os"
	"path"
	"runtime"
	"sort"
	"strings"
	"sync"
	"time"

	"github.com/anz-bank/golden-retriever/retriever"
	"github.com/anz-bank/sysl/pkg/parse"
	"github.com/anz-bank/sysl/pkg/sysl"
	"github.com/spf13/afero"

	"verifharness/internal/tr"
)

func init() { families["importclosure"] = runImportClosure }

type icStep struct {
	A string `json:"a"` // "enter" | "read"
	F string `json:"f"`
	D int    `json:"d"`
}

type icScenario struct {
	ID      int                 `json:"id"`
	Files   []string            `json:"files"`
	Root    string              `json:"root"`
	Imports map[string][]string `json:"imports"`
	Aliases map[string][]string `json:"aliases"`
	Fail    map[string]string   `json:"fail"`
	MaxD    int                 `json:"maxd"`
	Sched   []icStep            `json:"sched"`
	Mode    string              `json:"mode"` // "replay" | "free"
	Seed    int64               `json:"seed"`
	Procs   int                 `json:"procs"`
	// Remote: some files (a set closed under "imports") live in a remote repository and are imported by
	// //host/org/repo/path spellings; the substituted reader serves them like any other file
	Remote bool `json:"remote"`
	// Twins: the files share one base name and live in directories whose names differ only in leading dots, case or
	// an underscore, so that resolved names of different files are equal up to such a difference (d1/m.sysl, .d1/m.sysl,
	// D1/m.sysl, d1/M.sysl ...); only for graphs without faults (error texts name files by base name)
	Twins bool `json:"twins"`
}

type icWaiter struct {
	kind string // "enter" | "read"
	f    string
	d    int
	ch   chan struct{}
}

type icRun struct {
	sc      icScenario
	paths   map[string]string // file id -> path
	byPath  map[string]string // cleaned path -> file id
	content map[string]string
	nimp    map[string]int // number of import statements actually written
	remote  map[string]bool
	version string

	mu      sync.Mutex
	cond    *sync.Cond
	waiters []*icWaiter
	arrived int // total arrivals at any gate
	claims  int // total claim-hook events
	events  []tr.Ev
	free    bool
	rng     *rand.Rand
}

const icRepo = "h.io/o/r"

func (r *icRun) canon(filename string) string {
	s := strings.ReplaceAll(filename, `\`, "/")
	if i := strings.Index(s, "@"); i >= 0 {
		s = s[:i]
	}
	s = path.Clean("/" + s)[1:]
	if id, ok := r.byPath[s]; ok {
		return id
	}
	return "?" + filename
}

func (r *icRun) emit(ev tr.Ev) {
	ev["t"] = r.sc.ID
	r.events = append(r.events, ev)
}

// gate blocks the calling goroutine until the driver releases it.
func (r *icRun) gate(kind, f string, d int) {
	r.mu.Lock()
	if r.free {
		r.mu.Unlock()
		if r.sc.Mode == "free" && r.rng != nil {
			// perturb the schedule a little
			r.mu.Lock()
			n := r.rng.Intn(4)
			r.mu.Unlock()
			for i := 0; i < n; i++ {
				runtime.Gosched()
			}
		}
		return
	}
	w := &icWaiter{kind: kind, f: f, d: d, ch: make(chan struct{})}
	r.waiters = append(r.waiters, w)
	r.arrived++
	r.cond.Broadcast()
	r.mu.Unlock()
	<-w.ch
}

func (r *icRun) enterHook(filename string, depth int) {
	r.gate("enter", r.canon(filename), depth)
}

func (r *icRun) claimHook(kind, filename, index string, depth int) {
	r.mu.Lock()
	r.emit(tr.Ev{"e": kind, "f": r.canon(filename), "d": depth, "idx": index})
	r.claims++
	r.cond.Broadcast()
	r.mu.Unlock()
}

// icReader is the gated, fault-injecting reader.Reader.
type icReader struct {
	afero.Fs
	r *icRun
}

func (g *icReader) Read(ctx context.Context, p string) ([]byte, error) {
	b, _, _, err := g.ReadHashBranch(ctx, p)
	return b, err
}

func (g *icReader) ReadHash(ctx context.Context, p string) ([]byte, retriever.Hash, error) {
	b, h, _, err := g.ReadHashBranch(ctx, p)
	return b, h, err
}

func (g *icReader) ReadHashBranch(_ context.Context, p string) ([]byte, retriever.Hash, string, error) {
	r := g.r
	f := r.canon(p)
	r.gate("read", f, -1)
	r.mu.Lock()
	defer r.mu.Unlock()
	if strings.HasPrefix(f, "?") {
		r.emit(tr.Ev{"e": "read", "f": f, "ok": false, "name": p})
		r.cond.Broadcast()
		return nil, retriever.Hash{}, "", errors.New("no such file: " + p)
	}
	if r.sc.Fail[f] == "read" {
		r.emit(tr.Ev{"e": "read", "f": f, "ok": false, "name": p})
		r.cond.Broadcast()
		return nil, retriever.Hash{}, "", fmt.Errorf("injected read failure for %s", p)
	}
	r.emit(tr.Ev{"e": "read", "f": f, "ok": true, "name": p})
	r.cond.Broadcast()
	// a remote file is served from the branch or tag it was asked for (the files it imports inherit it)
	branch := ""
	if i := strings.Index(p, "@"); i >= 0 {
		branch = p[i+1:]
	}
	return []byte(r.content[f]), retriever.Hash{}, branch, nil
}

// render lays the files out in directories and writes import statements with
// varied but equivalent spellings.
func (r *icRun) render() {
	rng := rand.New(rand.NewSource(r.sc.Seed*7919 + int64(r.sc.ID)))
	dirs := []string{"", "", "d1", "d1/d2", "e"}
	r.paths = map[string]string{}
	r.byPath = map[string]string{}
	r.content = map[string]string{}
	r.nimp = map[string]int{}
	twins := r.sc.Twins
	for _, k := range r.sc.Fail {
		if k != "none" && k != "" {
			twins = false
		}
	}
	if twins {
		// near-miss names: every pair of paths below differs, many pairs only in leading dots, case or an underscore
		tdirs := []string{"", ".d1", "d1", "..d1", "D1", "_d1", "d1/d2", "d1/.d2", ".d1/d2", ".d1/.d2", "d1/D2"}
		tbases := []string{"m", "M", "_m", "m_"}
		used := map[string]bool{}
		for _, f := range r.sc.Files {
			for {
				dir := tdirs[rng.Intn(len(tdirs))]
				base := tbases[0]
				if rng.Intn(3) == 0 {
					base = tbases[rng.Intn(len(tbases))]
				}
				if f == r.sc.Root {
					dir = ""
				}
				p := path.Join(dir, base+".sysl")
				if !used[p] {
					used[p] = true
					r.paths[f] = p
					r.byPath[p] = f
					break
				}
			}
		}
	}
	for _, f := range r.sc.Files {
		if twins {
			break
		}
		dir := dirs[rng.Intn(len(dirs))]
		if f == r.sc.Root {
			dir = ""
		}
		ext := ".sysl"
		if r.sc.Fail[f] == "foreign" {
			ext = []string{".yaml", ".json", ".xsd.unknown"}[rng.Intn(3)]
		}
		if r.sc.Fail[f] == "compiled" {
			// a compiled model (binary, text, JSON) that cannot be decoded
			ext = []string{".pb", ".textpb", ".pb.json"}[rng.Intn(3)]
		}
		p := path.Join(dir, "f_"+f+ext)
		r.paths[f] = p
		r.byPath[p] = f
	}
	r.remote = map[string]bool{}
	// every full spelling of a remote file names the same version of the repository (branch, tag with dots, branch with a slash)
	r.version = []string{"", "@master", "@v1.0.0", "@release-2.1", "@feature/x"}[rng.Intn(5)]
	for _, k := range r.sc.Fail {
		// a compiled model under a versioned remote name is not recognised by its suffix (`f.pb@v1` has no known
		// extension) and goes to the foreign importers instead: the stage that reports its failure then differs,
		// so scenarios with such a fault name no version
		if k == "compiled" {
			r.version = ""
		}
	}
	if r.sc.Remote {
		// pick a file and close the set under "imports": a remote file can only name files of its own repository
		var close func(f string)
		close = func(f string) {
			if r.remote[f] {
				return
			}
			r.remote[f] = true
			for _, t := range r.sc.Imports[f] {
				close(t)
			}
		}
		for _, f := range r.sc.Files {
			if f != r.sc.Root && rng.Intn(2) == 0 {
				close(f)
			}
		}
		if r.remote[r.sc.Root] {
			r.remote = map[string]bool{} // the root is reached back: nothing can be remote
		}
		for f := range r.remote {
			delete(r.byPath, r.paths[f])
			r.byPath[icRepo+"/"+r.paths[f]] = f
		}
	}
	for _, f := range r.sc.Files {
		var b strings.Builder
		kind := r.sc.Fail[f]
		dir := path.Dir(r.paths[f])
		if dir == "." {
			dir = ""
		}
		if kind == "foreign" || kind == "compiled" {
			switch {
			case strings.HasSuffix(r.paths[f], ".textpb"): // cut short inside a message
				b.WriteString("apps: {\n key: \"App_" + f + "\"\n value: {\n  name: {\n   part: \"App_" + f + "\"\n  }\n  endpoints: {\n   key: \"Ep\"\n   value: {\n    name: \"E")
			case strings.HasSuffix(r.paths[f], ".pb.json"):
				b.WriteString("{\"apps\": {\"App_" + f + "\": {\"name\": {\"part\": [\"App_" + f + "\"]}, \"endpoints\": {\"Ep\": {\"name\": \"E")
			case strings.HasSuffix(r.paths[f], ".pb"): // one application entry whose declared length runs past the end
				b.WriteString("\x0a\x40\x0a\x05App_" + f + "\x12\x30\x0a\x07")
			default:
				b.WriteString("this: is\n  not: [a recognisable, foreign, spec\n")
			}
			r.content[f] = b.String()
			continue
		}
		imps := r.sc.Imports[f]
		if kind == "read" || kind == "importsyntax" || kind == "compiled" {
			imps = nil
		}
		for ii, t := range imps {
			tp := r.paths[t]
			noext := strings.TrimSuffix(tp, ".sysl")
			var sp string
			choice := rng.Intn(6)
			if r.remote[t] && !(r.remote[f] && choice < 3) {
				// a file of the remote repository: the full remote spelling (from a remote file also rooted / relative)
				choice = 6 + rng.Intn(2)
			}
			switch choice {
			case 6:
				sp = "//" + icRepo + "/" + noext + r.version
			case 7:
				sp = "//" + icRepo + "/" + tp + r.version
			case 0: // rooted, extension implied
				sp = "/" + noext
			case 1: // rooted, explicit extension
				sp = "/" + tp
			case 2: // relative to the importing file's directory
				sp = relTo(dir, noext)
			case 3:
				sp = "./" + relTo(dir, tp)
			case 4: // detour through a sibling directory name
				sp = "zz/../" + relTo(dir, noext)
			default:
				sp = "/./" + tp
			}
			b.WriteString("import " + sp)
			if r.sc.Fail[t] == "foreign" {
				b.WriteString(" as Foreign_" + t)
			} else if al := r.sc.Aliases[f]; ii < len(al) && al[ii] != "" {
				b.WriteString(" as " + al[ii])
			}
			b.WriteString("\n")
			r.nimp[f]++
		}
		if kind == "importsyntax" {
			b.WriteString("import x as\n")
		}
		b.WriteString("\n")
		body := fmt.Sprintf("App_%s:\n    Ep:\n        step %s\n\nShared:\n    Log:\n        visited %s\n", f, f, f)
		if kind == "body" {
			switch rng.Intn(7) {
			case 3: // content cut short inside an application header: the only syntax error is at end of input
				body += fmt.Sprintf("\nOther_%s", f)
			case 4:
				body += fmt.Sprintf("\nOther_%s [~x", f)
			case 5:
				body += fmt.Sprintf("\nOther_%s [~x, y=\"abc\"]", f)
			case 6:
				body += fmt.Sprintf("\nOther_%s [~x, y=\"abc\"]:", f)
			case 0: // truncated content
				body = fmt.Sprintf("App_%s:\n    Ep:\n        step %s\n\nShared:\n    Lo", f, f)
			case 1:
				body = fmt.Sprintf("App_%s:\n    Ep:\n        step %s\n    !type\n", f, f)
			default:
				body = fmt.Sprintf("App_%s:\n  Ep:\n      step\n    bad dedent %s\n", f, f)
			}
		}
		b.WriteString(body)
		r.content[f] = b.String()
	}
}

func (r *icRun) aliasesOrEmpty() map[string][]string {
	out := map[string][]string{}
	for f, imps := range r.sc.Imports {
		al := make([]string, len(imps))
		copy(al, r.sc.Aliases[f])
		out[f] = al
	}
	return out
}

func relTo(dir, target string) string {
	if dir == "" {
		return target
	}
	up := strings.Repeat("../", strings.Count(dir, "/")+1)
	return up + target
}

func (r *icRun) waitFor(pred func() bool, d time.Duration) bool {
	deadline := time.Now().Add(d)
	timer := time.AfterFunc(d, func() { r.mu.Lock(); r.cond.Broadcast(); r.mu.Unlock() })
	defer timer.Stop()
	for !pred() {
		if time.Now().After(deadline) {
			return false
		}
		r.cond.Wait()
	}
	return true
}

func (r *icRun) take(kind, f string, d int) *icWaiter {
	for i, w := range r.waiters {
		if w.kind == kind && w.f == f && (kind == "read" || w.d == d) {
			r.waiters = append(r.waiters[:i], r.waiters[i+1:]...)
			return w
		}
	}
	return nil
}

func (r *icRun) goFree() {
	r.free = true
	for _, w := range r.waiters {
		close(w.ch)
	}
	r.waiters = nil
}

type icResult struct {
	m   *sysl.Module
	err error
	pan interface{}
	out string
}

const icStepTimeout = 3 * time.Second

func runOneImportClosure(sc icScenario) []tr.Ev {
	r := &icRun{sc: sc}
	r.cond = sync.NewCond(&r.mu)
	r.rng = rand.New(rand.NewSource(sc.Seed + int64(sc.ID)*31))
	r.render()
	if sc.Mode == "free" {
		r.free = true
	}
	begin := tr.Ev{"e": "begin", "files": sc.Files, "root": sc.Root, "imports": sc.Imports,
		"aliases": r.aliasesOrEmpty(), "fail": sc.Fail, "maxd": sc.MaxD, "mode": sc.Mode, "paths": r.paths, "seed": sc.Seed}
	r.emit(begin)

	parse.VerifEnterHook = r.enterHook
	parse.VerifClaimHook = r.claimHook
	defer func() { parse.VerifEnterHook, parse.VerifClaimHook = nil, nil }()

	if sc.Procs > 0 {
		defer runtime.GOMAXPROCS(runtime.GOMAXPROCS(sc.Procs))
	}

	// capture the operation summary written to os.Stdout
	origStdout := os.Stdout
	pr, pw, _ := os.Pipe()
	os.Stdout = pw
	outCh := make(chan string, 1)
	go func() { b, _ := io.ReadAll(pr); outCh <- string(b) }()

	resCh := make(chan icResult, 1)
	go func() {
		var res icResult
		defer func() {
			if p := recover(); p != nil {
				res.pan = p
			}
			resCh <- res
		}()
		p := parse.NewParser()
		p.Set(parse.Settings{MaxImportDepth: sc.MaxD, OperationSummary: true})
		res.m, res.err = p.Parse(r.paths[sc.Root], &icReader{Fs: afero.NewMemMapFs(), r: r})
	}()

	stalled := ""
	r.mu.Lock()
	if sc.Mode != "free" {
		for i, st := range sc.Sched {
			var w *icWaiter
			ok := r.waitFor(func() bool { w = r.take(st.A, st.F, st.D); return w != nil }, icStepTimeout)
			if !ok {
				stalled = fmt.Sprintf("step %d %v: no goroutine waiting at that gate", i, st)
				break
			}
			claims, arrived := r.claims, r.arrived
			nev := len(r.events)
			close(w.ch)
			switch st.A {
			case "enter":
				// the goroutine reaches its linearisation point; a claimer then blocks at the read gate
				ok = r.waitFor(func() bool { return r.claims > claims }, icStepTimeout)
				if ok && r.lastClaimKind(nev) == "claimed" {
					ok = r.waitFor(func() bool { return r.arrived > arrived }, icStepTimeout)
				}
			case "read":
				ok = r.waitFor(func() bool { return len(r.events) > nev }, icStepTimeout)
				if ok {
					n := 0
					if k := sc.Fail[st.F]; k == "none" || k == "" || k == "body" {
						n = r.nimp[st.F]
					}
					ok = r.waitFor(func() bool { return r.arrived >= arrived+n }, icStepTimeout)
				}
			}
			if !ok {
				stalled = fmt.Sprintf("step %d %v: released goroutine did not reach its next gate", i, st)
				break
			}
		}
	}
	r.mu.Unlock()

	var res icResult
	select {
	case res = <-resCh:
	case <-time.After(icStepTimeout):
		// more goroutines than the schedule released: let everything run
		r.mu.Lock()
		if stalled == "" && sc.Mode != "free" {
			stalled = "parse did not return after the schedule was exhausted"
		}
		r.goFree()
		r.mu.Unlock()
		select {
		case res = <-resCh:
		case <-time.After(20 * time.Second):
			res.pan = "timeout"
		}
	}
	pw.Close()
	os.Stdout = origStdout
	summary := <-outCh
	pr.Close()

	r.mu.Lock()
	defer r.mu.Unlock()
	if stalled != "" {
		r.emit(tr.Ev{"e": "stall", "why": stalled})
	}
	if res.pan != nil {
		kind := "panic"
		if res.pan == "timeout" {
			kind = "timeout"
		}
		r.emit(tr.Ev{"e": kind, "msg": fmt.Sprint(res.pan)})
		return r.events
	}
	ret := tr.Ev{"e": "ret", "ok": res.err == nil, "hasmodel": res.m != nil}
	names := []string{}
	processed := []string{}
	logged := []string{}
	apps := []string{}
	if res.err != nil {
		msg := res.err.Error()
		ret["err"] = msg
		for _, f := range sc.Files {
			if strings.Contains(msg, path.Base(r.paths[f])) {
				names = append(names, f)
			}
		}
	} else {
		var s struct {
			FilesProcessed []string `json:"filesProcessed"`
		}
		if err := json.Unmarshal([]byte(summary), &s); err == nil {
			for _, p := range s.FilesProcessed {
				processed = append(processed, r.canon(p))
			}
		} else {
			ret["summaryerr"] = err.Error() + ": " + summary
		}
		for name, app := range res.m.GetApps() {
			apps = append(apps, name)
			if name == "Shared" {
				if ep := app.GetEndpoints()["Log"]; ep != nil {
					for _, st := range ep.GetStmt() {
						logged = append(logged, strings.TrimPrefix(st.GetAction().GetAction(), "visited "))
					}
				}
			}
		}
		sort.Strings(apps)
	}
	ret["names"] = names
	ret["processed"] = processed
	ret["log"] = logged
	ret["apps"] = apps
	r.emit(ret)
	return r.events
}

func (r *icRun) lastClaimKind(from int) string {
	for i := len(r.events) - 1; i >= from; i-- {
		switch k := r.events[i]["e"].(string); k {
		case "claimed", "dup", "cut":
			return k
		}
	}
	return ""
}

func runImportClosure(in, out string, _ []string) error {
	w, err := tr.NewWriter(out)
	if err != nil {
		return err
	}
	defer w.Close()
	return tr.ReadLines(in, func(line []byte) error {
		var sc icScenario
		if err := json.Unmarshal(line, &sc); err != nil {
			return fmt.Errorf("bad scenario: %v: %s", err, line)
		}
		// a panic on one of the collector's or the converter's goroutines ends the process: say which scenario is running
		w.Emit(tr.Ev{"t": sc.ID, "e": "start"})
		w.Flush()
		w.EmitAll(runOneImportClosure(sc))
		return nil
	})
}
