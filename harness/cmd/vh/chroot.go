package main

// Chroot family (C18): drives syslutil.ChrootFs over TLC-enumerated path
// spellings with a recording afero.Fs underneath, and compiles specifications
// whose import statements use those spellings through loader on a ChrootFs.

import (
	"encoding/json"
	"fmt"
	"io"
	"os"
	"strings"
	"time"

	"github.com/anz-bank/sysl/pkg/loader"
	"github.com/anz-bank/sysl/pkg/syslutil"
	"github.com/sirupsen/logrus"
	"github.com/spf13/afero"

	"verifharness/internal/tr"
)

func init() { families["chroot"] = runChroot }

type crCall struct {
	Op    string     `json:"op"`
	Paths [][]string `json:"paths"`
}

// recFs records every call (operation and all path arguments) that reaches it.
type recFs struct {
	afero.Fs
	exec  bool
	calls []crCall
}

func segsOf(p string) []string {
	out := []string{}
	for _, s := range strings.Split(p, "/") {
		if s != "" {
			out = append(out, s)
		}
	}
	return out
}

func (r *recFs) rec(op string, paths ...string) {
	c := crCall{Op: op}
	for _, p := range paths {
		c.Paths = append(c.Paths, segsOf(p))
	}
	r.calls = append(r.calls, c)
}

var errStub = os.ErrNotExist

// With exec false the recorder performs nothing: the op driver only needs to
// know which calls would reach the file system (afero's MemMapFs also crashes
// on some of the renames the enumeration produces).
func (r *recFs) Create(n string) (afero.File, error) {
	r.rec("Create", n)
	if !r.exec {
		return nil, errStub
	}
	return r.Fs.Create(n)
}
func (r *recFs) Mkdir(n string, p os.FileMode) error {
	r.rec("Mkdir", n)
	if !r.exec {
		return errStub
	}
	return r.Fs.Mkdir(n, p)
}
func (r *recFs) MkdirAll(n string, p os.FileMode) error {
	r.rec("MkdirAll", n)
	if !r.exec {
		return errStub
	}
	return r.Fs.MkdirAll(n, p)
}
func (r *recFs) Open(n string) (afero.File, error) {
	r.rec("Open", n)
	if !r.exec {
		return nil, errStub
	}
	return r.Fs.Open(n)
}
func (r *recFs) OpenFile(n string, f int, p os.FileMode) (afero.File, error) {
	r.rec("OpenFile", n)
	if !r.exec {
		return nil, errStub
	}
	return r.Fs.OpenFile(n, f, p)
}
func (r *recFs) Remove(n string) error {
	r.rec("Remove", n)
	if !r.exec {
		return errStub
	}
	return r.Fs.Remove(n)
}
func (r *recFs) RemoveAll(n string) error {
	r.rec("RemoveAll", n)
	if !r.exec {
		return errStub
	}
	return r.Fs.RemoveAll(n)
}
func (r *recFs) Rename(a, b string) error {
	r.rec("Rename", a, b)
	if !r.exec {
		return errStub
	}
	return r.Fs.Rename(a, b)
}
func (r *recFs) Stat(n string) (os.FileInfo, error) {
	r.rec("Stat", n)
	if !r.exec {
		return nil, errStub
	}
	return r.Fs.Stat(n)
}
func (r *recFs) Chmod(n string, m os.FileMode) error {
	r.rec("Chmod", n)
	if !r.exec {
		return errStub
	}
	return r.Fs.Chmod(n, m)
}
func (r *recFs) Chown(n string, u, g int) error {
	r.rec("Chown", n)
	if !r.exec {
		return errStub
	}
	return r.Fs.Chown(n, u, g)
}
func (r *recFs) Chtimes(n string, a, m time.Time) error {
	r.rec("Chtimes", n)
	if !r.exec {
		return errStub
	}
	return r.Fs.Chtimes(n, a, m)
}

type crScenario struct {
	Root     []string `json:"root"`
	Segs     []string `json:"segs"`
	Resolved []string `json:"resolved"`
	Allowed  bool     `json:"allowed"`
	Imports  bool     `json:"imports"` // also run the import driver for this name
}

type crRes struct {
	Op    string   `json:"op"`
	N2    []string `json:"n2"`
	Dir   int      `json:"dir"` // 0: op(name); 1: Rename(name, n2); 2: Rename(n2, name)
	Calls []crCall `json:"calls"`
	Err   bool     `json:"err"`
}

func spell(segs []string, abs bool) string {
	s := strings.Join(segs, "/")
	if abs {
		s = "/" + s
	}
	return s
}

var crRename2 = [][]string{{}, {".."}, {"..", "..", "o"}, {"x"}}

func crOps(root []string, segs []string, abs bool) []crRes {
	rec := &recFs{Fs: afero.NewMemMapFs()}
	fs := syslutil.NewChrootFs(rec, "/"+strings.Join(root, "/"))
	name := spell(segs, abs)
	var out []crRes
	do := func(op string, n2 []string, dir int, f func() error) {
		rec.calls = nil
		err := f()
		calls := rec.calls
		if calls == nil {
			calls = []crCall{}
		}
		if n2 == nil {
			n2 = []string{}
		}
		out = append(out, crRes{Op: op, N2: n2, Dir: dir, Calls: calls, Err: err != nil})
	}
	now := time.Unix(0, 0)
	do("Mkdir", nil, 0, func() error { return fs.Mkdir(name, 0o755) })
	do("MkdirAll", nil, 0, func() error { return fs.MkdirAll(name, 0o755) })
	do("Create", nil, 0, func() error { f, err := fs.Create(name); closeIf(f); return err })
	do("Open", nil, 0, func() error { f, err := fs.Open(name); closeIf(f); return err })
	do("OpenFile", nil, 0, func() error { f, err := fs.OpenFile(name, os.O_RDONLY, 0); closeIf(f); return err })
	do("Stat", nil, 0, func() error { _, err := fs.Stat(name); return err })
	do("Chmod", nil, 0, func() error { return fs.Chmod(name, 0o644) })
	do("Chown", nil, 0, func() error { return fs.Chown(name, 1, 1) })
	do("Chtimes", nil, 0, func() error { return fs.Chtimes(name, now, now) })
	for _, n2 := range append(append([][]string{}, crRename2...), segs) {
		n2 := n2
		do("Rename", n2, 1, func() error { return fs.Rename(name, spell(n2, false)) })
		do("Rename", n2, 2, func() error { return fs.Rename(spell(n2, true), name) })
	}
	do("Remove", nil, 0, func() error { return fs.Remove(name) })
	do("RemoveAll", nil, 0, func() error { return fs.RemoveAll(name) })
	return out
}

func closeIf(f afero.File) {
	if f != nil {
		f.Close()
	}
}

// stack machine used only to decide where the harness puts the imported file
func crClean(segs []string) []string {
	st := []string{}
	for _, s := range segs {
		switch s {
		case "", ".":
		case "..":
			if len(st) > 0 {
				st = st[:len(st)-1]
			}
		default:
			st = append(st, s)
		}
	}
	return st
}

// crImport compiles <root>/p/main.sysl whose only import is spelled by segs.
func crImport(root, segs []string, abs bool) tr.Ev {
	for _, s := range segs {
		if strings.ContainsAny(s, " \t") {
			return nil
		}
	}
	base := append(append([]string{}, root...), "p")
	imp0 := spell(append(append([]string{}, segs...), "dep"), abs)
	if strings.HasPrefix(imp0, "//") || strings.Contains(imp0, "///") {
		return nil // remote-import syntax / not an IMPORT_PATH token: not a local path spelling
	}
	abs = strings.HasPrefix(imp0, "/")
	var full []string
	if abs {
		full = append(append([]string{}, root...), segs...)
	} else {
		full = append(append([]string{}, base...), segs...)
	}
	full = append(full, "dep.sysl")
	target := crClean(full)
	mem := afero.NewMemMapFs()
	imp := imp0
	_ = afero.WriteFile(mem, "/"+strings.Join(append(base, "main.sysl"), "/"), []byte("import "+imp+"\n\nMain:\n    Ep:\n        ...\n"), 0o644)
	_ = afero.WriteFile(mem, "/"+strings.Join(target, "/"), []byte("Dep:\n    Ep:\n        ...\n"), 0o644)
	rec := &recFs{Fs: mem, exec: true}
	logger := logrus.New()
	logger.SetOutput(io.Discard)
	ev := tr.Ev{"e": "imp", "root": root, "segs": segs, "abs": abs, "import": imp, "target": target}
	func() {
		defer func() {
			if p := recover(); p != nil {
				ev["panic"] = fmt.Sprint(p)
			}
		}()
		m, _, err := loader.LoadSyslModule("/"+strings.Join(root, "/"), "p/main.sysl", rec, logger)
		ev["ok"] = err == nil
		if err != nil {
			ev["err"] = err.Error()
		}
		ev["hasdep"] = m.GetApps()["Dep"] != nil
	}()
	calls := rec.calls
	if calls == nil {
		calls = []crCall{}
	}
	ev["calls"] = calls
	return ev
}

// crModule loads a module named on the command line: the name is spelled by segs, relative to the root, and ends in
// `last` (no extension, `.sysl`, or an extension of its own).  The recording file system sits below everything the
// loader does, also what it does before it confines itself to the root.
func crModule(root, segs []string, abs bool, last string) tr.Ev {
	for _, s := range segs {
		if strings.ContainsAny(s, " \t") {
			return nil
		}
	}
	name := spell(append(append([]string{}, segs...), last), abs)
	if strings.HasPrefix(name, "//") || strings.Contains(name, "///") {
		return nil
	}
	full := append(append([]string{}, root...), segs...)
	dir := crClean(full)
	mem := afero.NewMemMapFs()
	for _, f := range []string{last, last + ".sysl"} {
		_ = afero.WriteFile(mem, "/"+strings.Join(append(append([]string{}, dir...), f), "/"), []byte("Mod:\n    Ep:\n        ...\n"), 0o644)
	}
	_ = mem.MkdirAll("/"+strings.Join(root, "/"), 0o755)
	rec := &recFs{Fs: mem, exec: true}
	logger := logrus.New()
	logger.SetOutput(io.Discard)
	ev := tr.Ev{"e": "mod", "root": root, "segs": segs, "abs": abs, "module": name, "dir": dir}
	func() {
		defer func() {
			if p := recover(); p != nil {
				ev["panic"] = fmt.Sprint(p)
			}
		}()
		m, _, err := loader.LoadSyslModule("/"+strings.Join(root, "/"), name, rec, logger)
		ev["ok"] = err == nil
		if err != nil {
			ev["err"] = err.Error()
		}
		ev["hasmod"] = m.GetApps()["Mod"] != nil
	}()
	calls := rec.calls
	if calls == nil {
		calls = []crCall{}
	}
	ev["calls"] = calls
	return ev
}

func runChroot(in, out string, _ []string) error {
	w, err := tr.NewWriter(out)
	if err != nil {
		return err
	}
	defer w.Close()
	logrus.SetOutput(io.Discard)
	n := 0
	return tr.ReadLines(in, func(line []byte) error {
		var sc crScenario
		if err := json.Unmarshal(line, &sc); err != nil {
			return fmt.Errorf("bad scenario: %v", err)
		}
		if sc.Root == nil {
			sc.Root = []string{}
		}
		if sc.Segs == nil {
			sc.Segs = []string{}
		}
		// self-check of the harness' own stack machine against the specification's resolution
		mine := crClean(append(append([]string{}, sc.Root...), sc.Segs...))
		if strings.Join(mine, "\x00") != strings.Join(sc.Resolved, "\x00") {
			return fmt.Errorf("harness resolution %v differs from specification %v", mine, sc.Resolved)
		}
		for _, abs := range []bool{false, true} {
			n++
			w.Emit(tr.Ev{"t": n, "e": "op", "root": sc.Root, "segs": sc.Segs, "abs": abs, "res": crOps(sc.Root, sc.Segs, abs)})
			if sc.Imports {
				if ev := crImport(sc.Root, sc.Segs, abs); ev != nil {
					n++
					ev["t"] = n
					w.Emit(ev)
				}
				// the module argument of the command line, with and without an extension of its own
				for _, last := range []string{"mod", "mod.sysl", "mod.v2"} {
					if ev := crModule(sc.Root, sc.Segs, abs, last); ev != nil {
						n++
						ev["t"] = n
						w.Emit(ev)
					}
				}
			}
		}
		return nil
	})
}
