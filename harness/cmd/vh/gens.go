package main

// A registry of output-producing library entry points, used by the determinism (C19, C07)
// and command life-cycle (C20) families.

import (
	"bytes"
	"context"
	"encoding/json"
	"fmt"
	"io"
	"sort"
	"strings"

	"github.com/anz-bank/sysl/pkg/arrai/relmod"
	"github.com/anz-bank/sysl/pkg/cmdutils"
	"github.com/anz-bank/sysl/pkg/database"
	"github.com/anz-bank/sysl/pkg/datamodeldiagram"
	"github.com/anz-bank/sysl/pkg/exporter"
	"github.com/anz-bank/sysl/pkg/integrationdiagram"
	mermaiddata "github.com/anz-bank/sysl/pkg/mermaid/datamodeldiagram"
	mermaidepa "github.com/anz-bank/sysl/pkg/mermaid/endpointanalysisdiagram"
	mermaidints "github.com/anz-bank/sysl/pkg/mermaid/integrationdiagram"
	mermaidseq "github.com/anz-bank/sysl/pkg/mermaid/sequencediagram"
	"github.com/anz-bank/sysl/pkg/pbutil"
	"github.com/anz-bank/sysl/pkg/printer"
	"github.com/anz-bank/sysl/pkg/sequencediagram"
	"github.com/anz-bank/sysl/pkg/sysl"
	"github.com/anz-bank/sysl/pkg/syslwrapper"
	"github.com/sirupsen/logrus"
	"google.golang.org/protobuf/proto"
)

type genFunc func(m *sysl.Module) ([]byte, error)

type generator struct {
	name string
	f    genFunc
}

func quietLogger() *logrus.Logger {
	l := logrus.New()
	l.SetOutput(io.Discard)
	return l
}

func mapOut(m map[string]string) []byte {
	keys := make([]string, 0, len(m))
	for k := range m {
		keys = append(keys, k)
	}
	sort.Strings(keys)
	var b bytes.Buffer
	for _, k := range keys {
		b.WriteString("==== " + k + "\n" + m[k] + "\n")
	}
	return b.Bytes()
}

// withProject returns a copy of the module with a project application whose single view lists
// every application (for the project-manner generators).
func withProject(m *sysl.Module) *sysl.Module {
	c := proto.Clone(m).(*sysl.Module)
	ep := &sysl.Endpoint{Name: "all"}
	for _, a := range sortedAppNames(m) {
		ep.Stmt = append(ep.Stmt, &sysl.Statement{Stmt: &sysl.Statement_Action{Action: &sysl.Action{Action: a}}})
	}
	c.Apps["VerifProj"] = &sysl.Application{Name: &sysl.AppName{Part: []string{"VerifProj"}},
		Endpoints: map[string]*sysl.Endpoint{"all": ep}}
	return c
}

// generatorsFor lists the generators applicable to a module (per application / endpoint where needed).
func generatorsFor(m *sysl.Module) []generator {
	var gs []generator
	add := func(name string, f genFunc) { gs = append(gs, generator{name, f}) }
	add("pb.textpb", func(m *sysl.Module) ([]byte, error) {
		var b bytes.Buffer
		err := pbutil.FTextPB(&b, m)
		return b.Bytes(), err
	})
	add("pb.json", func(m *sysl.Module) ([]byte, error) {
		var b bytes.Buffer
		err := pbutil.FJSONPB(&b, m)
		return b.Bytes(), err
	})
	add("pb.json.compact", func(m *sysl.Module) ([]byte, error) {
		var b bytes.Buffer
		err := pbutil.FJSONPBWithOpt(&b, m, pbutil.OutputOptions{Compact: true})
		return b.Bytes(), err
	})
	add("pb.binary", func(m *sysl.Module) ([]byte, error) {
		var b bytes.Buffer
		err := pbutil.GeneratePBBinaryMessage(&b, m)
		return b.Bytes(), err
	})
	add("printer", func(m *sysl.Module) ([]byte, error) { var b bytes.Buffer; printer.Module(&b, m); return b.Bytes(), nil })
	apps := sortedAppNames(m)
	neps := 0
	for _, an := range apps {
		an := an
		a := m.GetApps()[an]
		var eps []string
		for en, e := range a.GetEndpoints() {
			if !e.GetIsPubsub() && e.GetSource() == nil {
				eps = append(eps, en)
			}
		}
		sort.Strings(eps)
		for _, en := range eps {
			if neps >= 3 {
				break
			}
			neps++
			en := en
			add("sd", func(m *sysl.Module) ([]byte, error) {
				l := &cmdutils.Labeler{}
				p := &sequencediagram.SequenceDiagParam{Title: "t", Endpoints: []string{an + " <- " + en}}
				p.AppLabeler, p.EndpointLabeler = l, l
				s, err := sequencediagram.GenerateSequenceDiag(m, p, quietLogger())
				return []byte(s), err
			})
			add("mermaid.sd", func(m *sysl.Module) ([]byte, error) {
				s, err := mermaidseq.GenerateSequenceDiagram(m, an, en)
				return []byte(s), err
			})
		}
		hasRest, hasTable := false, false
		for _, e := range a.GetEndpoints() {
			hasRest = hasRest || e.GetRestParams() != nil
		}
		for _, t := range a.GetTypes() {
			hasTable = hasTable || t.GetRelation() != nil
		}
		if hasRest || len(a.GetTypes()) > 0 {
			for _, mode := range []string{"yaml", "json"} {
				mode := mode
				add("swagger."+mode, func(m *sysl.Module) ([]byte, error) {
					x := exporter.MakeSwaggerExporter(m.GetApps()[an], quietLogger())
					if err := x.GenerateSwagger(); err != nil {
						return nil, err
					}
					return x.SerializeOutput(mode)
				})
				add("openapi3."+mode, func(m *sysl.Module) ([]byte, error) {
					mapped, err := syslwrapper.MakeAppMapper(m).Map()
					if err != nil {
						return nil, err
					}
					x := exporter.MakeOpenAPI3Exporter(mapped, quietLogger())
					if err := x.Export(); err != nil {
						return nil, err
					}
					return x.SerializeOutput(an, mode)
				})
			}
		}
		if hasTable {
			add("dbscript.create", func(m *sysl.Module) ([]byte, error) {
				v := database.MakeDatabaseScriptView("t", quietLogger())
				return []byte(v.GenerateDatabaseScriptCreate(m.GetApps()[an].GetTypes(), "postgres", an)), nil
			})
		}
	}
	for _, view := range []string{"plain", "clustered", "epa"} {
		view := view
		add("ints."+view, func(m *sysl.Module) ([]byte, error) {
			p := &cmdutils.CmdContextParamIntgen{Project: "VerifProj", Output: "%(epname).png", Title: "t",
				Clustered: view == "clustered", EPA: view == "epa"}
			out, err := integrationdiagram.GenerateIntegrations(p, withProject(m), quietLogger())
			return mapOut(out), err
		})
	}
	add("datamodel", func(m *sysl.Module) ([]byte, error) {
		p := &cmdutils.CmdContextParamDatagen{Direct: true, Output: "%(epname).png", Title: "t", ClassFormat: "%(classname)"}
		out, err := datamodeldiagram.GenerateDataModels(p, m, quietLogger())
		return mapOut(out), err
	})
	add("relmod", func(m *sysl.Module) ([]byte, error) {
		s, err := relmod.Normalize(context.Background(), m)
		if err != nil {
			return nil, err
		}
		// the relations are sets of rows: compare them as such
		b, err := json.Marshal(sortRows(rmRows(s)))
		return b, err
	})
	add("mermaid.ints", func(m *sysl.Module) ([]byte, error) {
		s, err := mermaidints.GenerateFullIntegrationDiagram(m)
		return []byte(s), err
	})
	add("mermaid.datamodel", func(m *sysl.Module) ([]byte, error) {
		s, err := mermaiddata.GenerateFullDataDiagram(m)
		return []byte(s), err
	})
	add("mermaid.epa", func(m *sysl.Module) ([]byte, error) {
		s, err := mermaidepa.GenerateEndpointAnalysisDiagram(m)
		return []byte(s), err
	})
	return gs
}

// runGen runs a generator guarded; a panic is reported as such.
func runGen(g generator, m *sysl.Module) (out []byte, errText, pan string) {
	defer func() {
		if p := recover(); p != nil {
			pan = strings.SplitN(fmt.Sprint(p), "\n", 2)[0]
		}
	}()
	b, err := g.f(m)
	if err != nil {
		return nil, err.Error(), ""
	}
	return b, "", ""
}
