package main

// Interop family (C11, C12): renders an abstract document (spec/InteropFacts.tla) as a foreign specification,
// runs the real importer on it, compiles the emitted Sysl and reports the facts found in the compiled model;
// in the other direction renders the document as a REST-style Sysl application, exports it, reads the facts
// of the exported document and imports it back.

import (
	"bytes"
	"encoding/json"
	"fmt"
	"io"
	"math/rand"
	"os"
	"os/exec"
	"path/filepath"
	"regexp"
	"sort"
	"strings"

	"github.com/anz-bank/sysl/pkg/exporter"
	"github.com/anz-bank/sysl/pkg/importer"
	"github.com/anz-bank/sysl/pkg/parse"
	"github.com/anz-bank/sysl/pkg/sysl"
	"github.com/anz-bank/sysl/pkg/syslutil"
	"github.com/anz-bank/sysl/pkg/syslwrapper"
	"github.com/getkin/kin-openapi/openapi2"
	"github.com/getkin/kin-openapi/openapi2conv"
	"github.com/getkin/kin-openapi/openapi3"
	"github.com/ghodss/yaml"
	"github.com/sirupsen/logrus"
	"github.com/spf13/afero"

	"verifharness/internal/tr"
)

func init() { families["interop"] = runInterop }

type ioField struct {
	Name string    `json:"name"`
	Base string    `json:"base"`
	Arr  bool      `json:"arr"`
	Req  bool      `json:"req"`
	Key  bool      `json:"key"`
	Sub  []ioField `json:"sub"`
}
type ioVal struct {
	Name string `json:"name"`
	Num  int    `json:"num"`
}
type ioType struct {
	Vals   []ioVal   `json:"vals"`
	Name   string    `json:"name"`
	Kind   string    `json:"kind"`
	Base   string    `json:"base"`
	Fields []ioField `json:"fields"`
}
type ioPP struct {
	Name string `json:"name"`
	Base string `json:"base"`
}
type ioParam struct {
	Name string `json:"name"`
	Loc  string `json:"loc"`
	Base string `json:"base"`
	Arr  bool   `json:"arr"`
	Req  bool   `json:"req"`
}
type ioBody struct {
	Base string `json:"base"`
	Arr  bool   `json:"arr"`
	Req  bool   `json:"req"`
}
type ioResp struct {
	Code string `json:"code"`
	Base string `json:"base"`
	Arr  bool   `json:"arr"`
}
type ioEp struct {
	Method  string    `json:"method"`
	Path    string    `json:"path"`
	PParams []ioPP    `json:"pparams"`
	Params  []ioParam `json:"params"`
	Body    ioBody    `json:"body"`
	Resps   []ioResp  `json:"resps"`
}
type ioDoc struct {
	Types []ioType `json:"types"`
	Eps   []ioEp   `json:"eps"`
}
type ioScenario struct {
	ID   int    `json:"id"`
	Doc  ioDoc  `json:"doc"`
	Dir  string `json:"dir"`  // import | export
	Fmt  string `json:"fmt"`  // openapi3 | swagger | xsd | spanner | postgres | mysql
	Enc  string `json:"enc"`  // yaml | json (OpenAPI)
	Via  string `json:"via"`  // "" (importer API) | "stmt" (import statement in a specification)
	Seed int64  `json:"seed"` // surface choices of the renderer
	Tmp  string `json:"tmp"`
	// NoAgain skips the second import (the arr.ai importers take seconds per run)
	NoAgain bool `json:"noagain"`
	// PathLevel: "" = drawn from the seed, "yes" / "no" = path parameters on the path item / on every operation
	PathLevel string `json:"pathlevel"`
	// Cli: export also through this sysl binary, to a path that already holds an earlier, longer export
	Cli string `json:"cli"`
}

// exportRewrite runs `sysl export` three times: a longer model to out, the model to out again, the model to a fresh
// path; reports whether all ran and whether the rewritten file equals the fresh one.
func exportRewrite(sc *ioScenario, src string) tr.Ev {
	ev := tr.Ev{"t": sc.ID, "e": "written", "ok": false, "same": false, "msg": ""}
	dir, err := os.MkdirTemp(sc.Tmp, "exp")
	if err != nil {
		ev["msg"] = err.Error()
		return ev
	}
	defer os.RemoveAll(dir)
	longer := src + "    !type ZzEarlier:\n        first <: string\n        second <: int\n        third <: sequence of string\n" +
		"    /zz/earlier/{id <: int}:\n        GET:\n            return 200 <: ZzEarlier\n        DELETE:\n            return 204\n"
	_ = os.WriteFile(filepath.Join(dir, "src.sysl"), []byte(src), 0o644)
	_ = os.WriteFile(filepath.Join(dir, "longer.sysl"), []byte(longer), 0o644)
	ext := sc.Enc
	if ext == "" {
		ext = "yaml"
	}
	run := func(module, out string) error {
		cmd := exec.Command(sc.Cli, "--root", dir, "export", "-f", sc.Fmt, "-a", ioApp, "-o", filepath.Join(dir, out), module)
		cmd.Dir = dir
		if o, err := cmd.CombinedOutput(); err != nil {
			return fmt.Errorf("%v: %s", err, short(fmt.Errorf("%s", o)))
		}
		return nil
	}
	for _, step := range [][2]string{{"longer.sysl", "out." + ext}, {"src.sysl", "out." + ext}, {"src.sysl", "fresh." + ext}} {
		if err := run(step[0], step[1]); err != nil {
			ev["msg"] = err.Error()
			return ev
		}
	}
	a, _ := os.ReadFile(filepath.Join(dir, "out."+ext))
	b, _ := os.ReadFile(filepath.Join(dir, "fresh."+ext))
	// The exporters print maps in no fixed order, and the Swagger exporter even lets same-named array fields of two types
	// overwrite one top-level definition in map order (findings of C19), so two exports of one model need not be equal.
	// What the rewritten file must be is a document (it parses) that holds nothing of the longer model written before:
	// the longer model's own type and path are looked for by name.
	_, erra := canonDoc(a, ext)
	_, errb := canonDoc(b, ext)
	if erra != nil || errb != nil {
		ev["ok"], ev["msg"] = true, fmt.Sprint("rewritten: ", erra, "; fresh: ", errb)
		ev["same"] = erra == nil && errb != nil // only the fresh one is unreadable: nothing to hold against the rewrite
		return ev
	}
	stale := bytes.Contains(a, []byte("ZzEarlier")) || bytes.Contains(a, []byte("zz/earlier"))
	ev["ok"], ev["same"] = true, !stale
	if stale {
		ev["msg"] = "the rewritten file still names what only the earlier, longer model declared"
	}
	return ev
}

// canonDoc parses a YAML or JSON document and prints it with sorted keys and sorted lists.
func canonDoc(b []byte, ext string) (string, error) {
	j := b
	if ext != "json" {
		var err error
		if j, err = yaml.YAMLToJSON(b); err != nil {
			return "", err
		}
	}
	var v any
	if err := json.Unmarshal(j, &v); err != nil {
		return "", err
	}
	var canon func(x any) any
	canon = func(x any) any {
		switch t := x.(type) {
		case map[string]any:
			for k, e := range t {
				t[k] = canon(e)
			}
			return t
		case []any:
			keyed := make([]string, len(t))
			for i, e := range t {
				c, _ := json.Marshal(canon(e))
				keyed[i] = string(c)
			}
			sort.Strings(keyed)
			out := make([]any, len(keyed))
			for i, k := range keyed {
				out[i] = json.RawMessage(k)
			}
			return out
		}
		return x
	}
	out, err := json.Marshal(canon(v))
	return string(out), err
}

const ioApp = "Foo"

func b01(b bool) string {
	if b {
		return "1"
	}
	return "0"
}

// ---------------------------------------------------------------------------------------------------------
// rendering: OpenAPI

type m = map[string]any

func (d *ioDoc) has(name string) bool {
	for _, t := range d.Types {
		if t.Name == name {
			return true
		}
	}
	return false
}

// oasFormat draws the format written beside a type: none, one the formats define, or one they do not (a reader
// ignores a format it does not know).  Set per document from its seed.
var oasFormat = func(kind string) string { return "" }

func withFormat(s m, kind string) m {
	if f := oasFormat(kind); f != "" {
		s["format"] = f
	}
	return s
}

func oasPrim(base string) m {
	switch base {
	case "int":
		return withFormat(m{"type": "integer"}, "int")
	case "float":
		return withFormat(m{"type": "number"}, "float")
	case "bool":
		return m{"type": "boolean"}
	case "date":
		return m{"type": "string", "format": "date"}
	case "datetime":
		return m{"type": "string", "format": "date-time"}
	}
	return m{"type": "string"}
}

func oasSchema(base string, arr bool, sub []ioField, refPrefix string) m {
	var s m
	switch {
	case strings.HasPrefix(base, "ref:"):
		s = m{"$ref": refPrefix + base[4:]}
	case base == "inline":
		s = oasObject(sub, refPrefix)
	default:
		s = oasPrim(base)
	}
	if arr {
		return m{"type": "array", "items": s}
	}
	return s
}

func oasObject(fs []ioField, refPrefix string) m {
	props := m{}
	var req []any
	for _, f := range fs {
		props[f.Name] = oasSchema(f.Base, f.Arr, f.Sub, refPrefix)
		if f.Req {
			req = append(req, f.Name)
		}
	}
	o := m{"type": "object", "properties": props}
	if len(req) > 0 {
		o["required"] = req
	}
	return o
}

func oasTypes(d *ioDoc, refPrefix string, shape map[string]any) m {
	out := m{}
	for _, t := range d.Types {
		switch t.Kind {
		case "object":
			out[t.Name] = oasObject(t.Fields, refPrefix)
		case "enum":
			var vs []any
			for _, v := range t.Vals {
				vs = append(vs, v.Name)
			}
			out[t.Name] = m{"type": "string", "enum": vs}
		case "array":
			items := oasPrim(t.Base)
			if f, has := items["format"].(string); has && shape != nil {
				shape[t.Name] = "format=" + f
			}
			out[t.Name] = m{"type": "array", "items": items}
		default:
			p := oasPrim(t.Base)
			if t.Base == "int" && len(t.Name)%2 == 0 {
				// a named 64-bit integer
				p["format"] = "int64"
				if shape != nil {
					shape[t.Name] = "format=int64"
				}
			}
			if f, has := p["format"].(string); has && shape != nil {
				shape[t.Name] = "format=" + f
			}
			out[t.Name] = p
		}
	}
	return out
}

// renderOpenAPI writes version 2 or 3; path parameters go to the path item (shared) when pathLevel is set.
func renderOpenAPI(d *ioDoc, v3 bool, pathLevel bool, shape map[string]any) m {
	refPrefix := "#/definitions/"
	if v3 {
		refPrefix = "#/components/schemas/"
	}
	param := func(name, loc, base string, arr, req bool) m {
		p := m{"name": name, "in": loc}
		if req || loc == "path" {
			p["required"] = true
		}
		sch := oasSchema(base, arr, nil, refPrefix)
		if v3 {
			p["schema"] = sch
		} else {
			for k, v := range sch {
				p[k] = v
			}
		}
		return p
	}
	paths := m{}
	// the variables of a path can sit on the path item only if its operations agree on their types
	ppSig := func(e ioEp) string {
		var b strings.Builder
		for _, p := range e.PParams {
			b.WriteString(p.Name + ":" + p.Base + ";")
		}
		return b.String()
	}
	agree := map[string]bool{}
	first := map[string]string{}
	for _, e := range d.Eps {
		if s0, seen := first[e.Path]; !seen {
			first[e.Path], agree[e.Path] = ppSig(e), true
		} else if s0 != ppSig(e) {
			agree[e.Path] = false
		}
	}
	for _, e := range d.Eps {
		item, _ := paths[e.Path].(m)
		if item == nil {
			item = m{}
			paths[e.Path] = item
		}
		var ps []any
		var shared []any
		for _, p := range e.PParams {
			shared = append(shared, param(p.Name, "path", p.Base, false, true))
		}
		if pathLevel && len(shared) > 0 && agree[e.Path] {
			item["parameters"] = shared
		} else {
			ps = append(ps, shared...)
		}
		for _, p := range e.Params {
			ps = append(ps, param(p.Name, p.Loc, p.Base, p.Arr, p.Req))
		}
		op := m{}
		if e.Body.Base != "" {
			sch := oasSchema(e.Body.Base, e.Body.Arr, nil, refPrefix)
			if v3 {
				rb := m{"content": m{"application/json": m{"schema": sch}}}
				if e.Body.Req {
					rb["required"] = true
				}
				op["requestBody"] = rb
			} else {
				bp := m{"name": "body", "in": "body", "schema": sch}
				if e.Body.Req {
					bp["required"] = true
				}
				ps = append(ps, bp)
			}
		}
		if len(ps) > 0 {
			op["parameters"] = ps
		}
		resps := m{}
		for _, r := range e.Resps {
			rr := m{"description": "response " + r.Code}
			if r.Base != "" {
				sch := oasSchema(r.Base, r.Arr, nil, refPrefix)
				if v3 {
					rr["content"] = m{"application/json": m{"schema": sch}}
				} else {
					rr["schema"] = sch
				}
			}
			resps[r.Code] = rr
		}
		op["responses"] = resps
		item[strings.ToLower(e.Method)] = op
	}
	doc := m{"info": m{"title": "Generated", "version": "1.0"}, "paths": paths}
	if v3 {
		doc["openapi"] = "3.0.0"
		doc["components"] = m{"schemas": oasTypes(d, refPrefix, shape)}
	} else {
		doc["swagger"] = "2.0"
		doc["definitions"] = oasTypes(d, refPrefix, shape)
		doc["consumes"] = []any{"application/json"}
		doc["produces"] = []any{"application/json"}
	}
	return doc
}

func encodeDoc(doc m, enc string) (string, error) {
	j, err := json.MarshalIndent(doc, "", "  ")
	if err != nil {
		return "", err
	}
	if enc == "json" {
		return string(j), nil
	}
	y, err := yaml.JSONToYAML(j)
	return string(y), err
}

// ---------------------------------------------------------------------------------------------------------
// rendering: XSD

func xsdPrim(base string) string {
	switch base {
	case "int":
		return "xs:integer"
	case "float":
		return "xs:decimal"
	case "bool":
		return "xs:boolean"
	case "date":
		return "xs:date"
	case "datetime":
		return "xs:dateTime"
	}
	return "xs:string"
}

func xsdFields(sb *strings.Builder, fs []ioField, ind string) {
	sb.WriteString(ind + "<xs:sequence>\n")
	for _, f := range fs {
		occ := ""
		if !f.Req {
			occ += ` minOccurs="0"`
		}
		if f.Arr {
			occ += ` maxOccurs="unbounded"`
		}
		switch {
		case f.Base == "inline":
			fmt.Fprintf(sb, "%s  <xs:element name=%q%s>\n%s    <xs:complexType>\n", ind, f.Name, occ, ind)
			xsdFields(sb, f.Sub, ind+"      ")
			fmt.Fprintf(sb, "%s    </xs:complexType>\n%s  </xs:element>\n", ind, ind)
		case strings.HasPrefix(f.Base, "ref:"):
			fmt.Fprintf(sb, "%s  <xs:element name=%q type=%q%s/>\n", ind, f.Name, f.Base[4:], occ)
		default:
			fmt.Fprintf(sb, "%s  <xs:element name=%q type=%q%s/>\n", ind, f.Name, xsdPrim(f.Base), occ)
		}
	}
	sb.WriteString(ind + "</xs:sequence>\n")
}

func renderXSD(d *ioDoc) string {
	var sb strings.Builder
	sb.WriteString("<?xml version=\"1.0\" encoding=\"UTF-8\"?>\n<xs:schema xmlns:xs=\"http://www.w3.org/2001/XMLSchema\" elementFormDefault=\"qualified\">\n")
	for _, t := range d.Types {
		switch t.Kind {
		case "object":
			fmt.Fprintf(&sb, "  <xs:complexType name=%q>\n", t.Name)
			if t.Base != "" {
				fmt.Fprintf(&sb, "    <xs:complexContent>\n      <xs:extension base=%q>\n", t.Base)
				xsdFields(&sb, t.Fields, "        ")
				sb.WriteString("      </xs:extension>\n    </xs:complexContent>\n")
			} else {
				xsdFields(&sb, t.Fields, "    ")
			}
			sb.WriteString("  </xs:complexType>\n")
		case "enum":
			fmt.Fprintf(&sb, "  <xs:simpleType name=%q>\n    <xs:restriction base=%q>\n", t.Name, xsdPrim(t.Base))
			for _, v := range t.Vals {
				fmt.Fprintf(&sb, "      <xs:enumeration value=%q/>\n", v.Name)
			}
			sb.WriteString("    </xs:restriction>\n  </xs:simpleType>\n")
		case "prim":
			fmt.Fprintf(&sb, "  <xs:simpleType name=%q>\n    <xs:restriction base=%q/>\n  </xs:simpleType>\n", t.Name, xsdPrim(t.Base))
		}
	}
	sb.WriteString("</xs:schema>\n")
	return sb.String()
}

// ---------------------------------------------------------------------------------------------------------
// rendering: SQL DDL

func sqlPrim(dialect, base string, rng *rand.Rand) string {
	switch dialect {
	case "spanner":
		switch base {
		case "int":
			return "INT64"
		case "float":
			return "FLOAT64"
		case "bool":
			return "BOOL"
		case "date":
			return "DATE"
		case "datetime":
			return "TIMESTAMP"
		}
		return []string{"STRING(50)", "STRING(MAX)"}[rng.Intn(2)]
	case "mysql":
		switch base {
		case "int":
			return []string{"INT", "BIGINT"}[rng.Intn(2)]
		case "float":
			return []string{"DOUBLE", "FLOAT"}[rng.Intn(2)]
		case "bool":
			return "BOOLEAN"
		case "date":
			return "DATE"
		case "datetime":
			return "DATETIME"
		}
		return []string{"VARCHAR(50)", "TEXT"}[rng.Intn(2)]
	}
	switch base {
	case "int":
		return []string{"INTEGER", "BIGINT"}[rng.Intn(2)]
	case "float":
		return []string{"FLOAT", "NUMERIC(10,2)"}[rng.Intn(2)]
	case "bool":
		return "BOOLEAN"
	case "date":
		return "DATE"
	case "datetime":
		return []string{"TIMESTAMP", "TIMESTAMP WITH TIME ZONE"}[rng.Intn(2)]
	}
	return []string{"VARCHAR(50)", "TEXT", "CHARACTER VARYING(20)"}[rng.Intn(3)]
}

var sqlIdent = regexp.MustCompile(`^[A-Za-z_][A-Za-z0-9_]*$`)

// sqlName quotes a column name that is not a plain identifier
func sqlName(n string) string {
	if sqlIdent.MatchString(n) {
		return n
	}
	return "`" + n + "`"
}

func (d *ioDoc) typ(name string) *ioType {
	for i := range d.Types {
		if d.Types[i].Name == name {
			return &d.Types[i]
		}
	}
	return nil
}

func keyOf(t *ioType) *ioField {
	for i := range t.Fields {
		if t.Fields[i].Key {
			return &t.Fields[i]
		}
	}
	return nil
}

// renderSQL writes one CREATE TABLE per object type, referenced tables first where possible. Surface choices
// (inline or table-level key and foreign-key clauses) are drawn from rng.
func renderSQL(d *ioDoc, dialect string, rng *rand.Rand, shape map[string]any) string {
	var sb strings.Builder
	for _, t := range d.Types {
		var inlineFK, tableFK []string
		var lines, keys []string
		inlinePK := rng.Intn(3) == 0
		for _, f := range t.Fields {
			if f.Key {
				keys = append(keys, sqlName(f.Name))
			}
		}
		var fks []string
		for _, f := range t.Fields {
			ty := ""
			fkClause := ""
			if strings.HasPrefix(f.Base, "ref:") {
				target := d.typ(f.Base[4:])
				k := keyOf(target)
				ty = sqlPrim(dialect, k.Base, rand.New(rand.NewSource(1)))
				if strings.HasPrefix(ty, "STRING") || strings.HasPrefix(ty, "VARCHAR") {
					// the same text type as the referenced key is not required by the grammar
					ty = sqlPrim(dialect, "string", rand.New(rand.NewSource(1)))
				}
				if rng.Intn(3) == 0 {
					fkClause = fmt.Sprintf(" REFERENCES %s (%s)", target.Name, sqlName(k.Name))
					inlineFK = append(inlineFK, f.Name)
				} else {
					tableFK = append(tableFK, f.Name)
					fks = append(fks, fmt.Sprintf("  CONSTRAINT fk_%s_%s FOREIGN KEY (%s) REFERENCES %s (%s)", t.Name, identOf(f.Name), sqlName(f.Name), target.Name, sqlName(k.Name)))
				}
			} else {
				ty = sqlPrim(dialect, f.Base, rng)
			}
			l := "  " + sqlName(f.Name) + " " + ty
			if f.Req || f.Key {
				l += " NOT NULL"
			}
			if f.Key && inlinePK && len(keys) == 1 && dialect != "spanner" {
				l += " PRIMARY KEY"
			}
			lines = append(lines, l+fkClause)
		}
		lines = append(lines, fks...)
		tail := ")"
		if dialect == "spanner" {
			tail = ") PRIMARY KEY (" + strings.Join(keys, ", ") + ")"
		} else if len(keys) > 0 && !(inlinePK && len(keys) == 1) {
			lines = append(lines, "  PRIMARY KEY ("+strings.Join(keys, ", ")+")")
		}
		fmt.Fprintf(&sb, "CREATE TABLE %s (\n%s\n%s;\n\n", t.Name, strings.Join(lines, ",\n"), tail)
		pkInline := inlinePK && len(keys) == 1 && dialect != "spanner"
		shape[t.Name] = map[string]any{"inlinepk": pkInline, "tablepk": !pkInline && dialect != "spanner" && len(keys) > 0,
			"inlinefk": append([]string{}, inlineFK...), "tablefk": append([]string{}, tableFK...)}
	}
	return sb.String()
}

// ---------------------------------------------------------------------------------------------------------
// rendering: Avro schema and Protocol Buffers (beyond the listed properties: the importers C11 does not name)

func avroPrim(base string) any {
	switch base {
	case "int":
		return "long"
	case "float":
		return "double"
	case "bool":
		return "boolean"
	case "date":
		return m{"type": "int", "logicalType": "date"}
	case "datetime":
		return m{"type": "long", "logicalType": "timestamp-millis"}
	}
	return "string"
}

// renderAvro writes the types as a top-level union of named records and enums (every type before its first use).
func renderAvro(d *ioDoc) (string, error) {
	defined := map[string]bool{}
	var out []any
	var def func(name string) any
	typeOf := func(base string) any {
		if strings.HasPrefix(base, "ref:") {
			n := base[4:]
			if defined[n] {
				return n
			}
			return def(n)
		}
		return avroPrim(base)
	}
	def = func(name string) any {
		t := d.typ(name)
		defined[name] = true
		if t.Kind == "enum" {
			syms := []string{}
			for _, v := range t.Vals {
				syms = append(syms, v.Name)
			}
			return m{"type": "enum", "name": name, "symbols": syms}
		}
		fields := []any{}
		for _, f := range t.Fields {
			var ft any = typeOf(f.Base)
			if f.Arr {
				ft = m{"type": "array", "items": ft}
			}
			fd := m{"name": f.Name, "type": ft}
			if !f.Req {
				fd["type"] = []any{"null", ft}
				fd["default"] = nil
			}
			fields = append(fields, fd)
		}
		return m{"type": "record", "name": name, "fields": fields}
	}
	for _, t := range d.Types {
		if !defined[t.Name] {
			out = append(out, def(t.Name))
		}
	}
	var doc any = out
	if len(out) == 1 {
		doc = out[0]
	}
	b, err := json.MarshalIndent(doc, "", "  ")
	return string(b), err
}

func protoPrim(base string) string {
	switch base {
	case "int":
		return "int64"
	case "float":
		return "double"
	case "bool":
		return "bool"
	}
	return "string"
}

func renderProto(d *ioDoc) string {
	var sb strings.Builder
	sb.WriteString("syntax = \"proto3\";\npackage " + ioApp + ";\n\n")
	for _, t := range d.Types {
		if t.Kind == "enum" {
			fmt.Fprintf(&sb, "enum %s {\n", t.Name)
			zero := false
			for _, v := range t.Vals {
				zero = zero || v.Num == 0
			}
			if !zero { // proto3: the first value of an enumeration is zero
				fmt.Fprintf(&sb, "  %s_UNSPECIFIED = 0;\n", strings.ToUpper(t.Name))
			}
			for _, v := range t.Vals {
				if v.Num == 0 {
					fmt.Fprintf(&sb, "  %s = 0;\n", v.Name)
				}
			}
			for _, v := range t.Vals {
				if v.Num != 0 {
					fmt.Fprintf(&sb, "  %s = %d;\n", v.Name, v.Num)
				}
			}
			sb.WriteString("}\n\n")
			continue
		}
		fmt.Fprintf(&sb, "message %s {\n", t.Name)
		for i, f := range t.Fields {
			ty := protoPrim(f.Base)
			if strings.HasPrefix(f.Base, "ref:") {
				ty = f.Base[4:]
			}
			label := ""
			if f.Arr {
				label = "repeated "
			} else if !f.Req {
				label = "optional "
			}
			fmt.Fprintf(&sb, "  %s%s %s = %d;\n", label, ty, f.Name, i+1)
		}
		sb.WriteString("}\n\n")
	}
	return sb.String()
}

// ---------------------------------------------------------------------------------------------------------
// rendering: Sysl (export direction)

func syslType(base string, arr bool) string {
	s := base
	if strings.HasPrefix(base, "ref:") {
		s = base[4:]
	}
	if arr {
		s = "sequence of " + s
	}
	return s
}

func identOf(name string) string {
	return regexp.MustCompile(`[^A-Za-z0-9_]`).ReplaceAllString(name, "_")
}

func renderSysl(d *ioDoc) string {
	var sb strings.Builder
	sb.WriteString(ioApp + " \"Generated\" [version=\"1.0\"]:\n")
	// one block per path and typing of its variables (two methods of a path may type a variable differently)
	byPath := map[string][]ioEp{}
	var order []string
	for _, e := range d.Eps {
		k := e.Path + "\x00"
		for _, pp := range e.PParams {
			k += pp.Name + ":" + pp.Base + ";"
		}
		if _, ok := byPath[k]; !ok {
			order = append(order, k)
		}
		byPath[k] = append(byPath[k], e)
	}
	for _, k := range order {
		es := byPath[k]
		p := es[0].Path
		path := p
		for _, pp := range es[0].PParams {
			path = strings.Replace(path, "{"+pp.Name+"}", "{"+pp.Name+" <: "+pp.Base+"}", 1)
		}
		fmt.Fprintf(&sb, "    %s:\n", path)
		for _, e := range es {
			var ps, qs []string
			for _, p := range e.Params {
				opt := ""
				if !p.Req {
					opt = "?"
				}
				if p.Loc == "header" {
					ps = append(ps, fmt.Sprintf("%s <: %s%s [~header, name=%q]", identOf(p.Name), syslType(p.Base, p.Arr), opt, p.Name))
				} else {
					qs = append(qs, fmt.Sprintf("%s=%s%s", p.Name, syslType(p.Base, p.Arr), opt))
				}
			}
			if e.Body.Base != "" {
				opt := ""
				if !e.Body.Req {
					opt = "?"
				}
				ps = append(ps, fmt.Sprintf("req <: %s%s [~body]", syslType(e.Body.Base, e.Body.Arr), opt))
			}
			h := "        " + e.Method
			if len(ps) > 0 {
				h += " (" + strings.Join(ps, ", ") + ")"
			}
			if len(qs) > 0 {
				h += " ?" + strings.Join(qs, "&")
			}
			sb.WriteString(h + ":\n")
			for _, r := range e.Resps {
				if r.Base == "" {
					fmt.Fprintf(&sb, "            return %s\n", r.Code)
				} else {
					fmt.Fprintf(&sb, "            return %s <: %s\n", r.Code, syslType(r.Base, r.Arr))
				}
			}
			if len(e.Resps) == 0 {
				sb.WriteString("            ...\n")
			}
		}
	}
	for _, t := range d.Types {
		switch t.Kind {
		case "object":
			fmt.Fprintf(&sb, "    !type %s:\n", t.Name)
			for _, f := range t.Fields {
				opt := ""
				if !f.Req {
					opt = "?"
				}
				fmt.Fprintf(&sb, "        %s <: %s%s\n", f.Name, syslType(f.Base, f.Arr), opt)
			}
		case "enum":
			fmt.Fprintf(&sb, "    !enum %s:\n", t.Name)
			for _, v := range t.Vals {
				fmt.Fprintf(&sb, "        %s: %d\n", v.Name, v.Num)
			}
		case "array":
			fmt.Fprintf(&sb, "    !alias %s:\n        sequence of %s\n", t.Name, t.Base)
		default:
			fmt.Fprintf(&sb, "    !alias %s:\n        %s\n", t.Name, t.Base)
		}
	}
	return sb.String()
}

// ---------------------------------------------------------------------------------------------------------
// facts of a compiled model

type factSet struct {
	seen map[string]bool
	list [][]string
}

func (fs *factSet) add(f ...string) {
	k := strings.Join(f, "\x00")
	if fs.seen == nil {
		fs.seen = map[string]bool{}
	}
	if !fs.seen[k] {
		fs.seen[k] = true
		fs.list = append(fs.list, f)
	}
}

func (fs *factSet) sorted() [][]string {
	sort.Slice(fs.list, func(i, j int) bool { return strings.Join(fs.list[i], "|") < strings.Join(fs.list[j], "|") })
	if fs.list == nil {
		return [][]string{}
	}
	return fs.list
}

func primBase(p sysl.Type_Primitive) string {
	switch p {
	case sysl.Type_INT:
		return "int"
	case sysl.Type_FLOAT, sysl.Type_DECIMAL:
		return "float"
	case sysl.Type_STRING, sysl.Type_STRING_8:
		return "string"
	case sysl.Type_BOOL:
		return "bool"
	case sysl.Type_DATE:
		return "date"
	case sysl.Type_DATETIME:
		return "datetime"
	}
	return strings.ToLower(p.String())
}

type modelView struct {
	doc        *ioDoc
	app        *sysl.Application
	sqlFK      bool // a reference to a column of a table counts as a reference to the table
	protoNames bool
	depth      int
}

// base returns (base, array, optional) of a model type; a reference to a type that the document does not name is "inline:<type>"
func (v *modelView) base(t *sysl.Type) (string, bool, bool) {
	opt := t.GetOpt()
	switch x := t.GetType().(type) {
	case *sysl.Type_Primitive_:
		return primBase(x.Primitive), false, opt
	case *sysl.Type_Sequence:
		b, _, _ := v.base(x.Sequence)
		return b, true, opt || x.Sequence.GetOpt()
	case *sysl.Type_Set:
		b, _, _ := v.base(x.Set)
		return b, true, opt || x.Set.GetOpt()
	case *sysl.Type_List_:
		// `f(0..) <: sequence of T?` compiles to a list whose element carries the sequence and the optionality
		b, _, o2 := v.base(x.List.GetType())
		return b, true, opt || o2
	case *sysl.Type_TypeRef:
		path := x.TypeRef.GetRef().GetPath()
		if ap := x.TypeRef.GetRef().GetAppname().GetPart(); len(ap) > 0 && len(path) == 0 {
			path = ap
		}
		if len(path) == 0 {
			return "ref:", false, opt
		}
		if len(path) >= 2 && path[0] == ioApp {
			path = path[1:]
		}
		if v.doc.has(path[0]) {
			if len(path) > 1 && !v.sqlFK {
				return "ref:" + strings.Join(path, "."), false, opt
			}
			return "ref:" + path[0], false, opt
		}
		// a named non-object type the document does not know (the importers introduce aliases for array
		// parameters and bodies) stands for what it is an alias of
		if at := v.app.GetTypes()[path[0]]; at != nil && fieldDefs(at) == nil && at.GetTuple() == nil && at.GetRelation() == nil && v.depth < 4 {
			v.depth++
			b, arr, o2 := v.base(at)
			v.depth--
			return b, arr, opt || o2
		}
		return "inline:" + path[0], false, opt
	case *sysl.Type_Tuple_:
		return "tuple", false, opt
	case *sysl.Type_Enum_:
		return "enum", false, opt
	}
	return "?", false, opt
}

// aliasedObject follows an alias to the tuple or table of the same application it stands for (nil if it is none).
func (v *modelView) aliasedObject(t *sysl.Type, depth int) *sysl.Type {
	ref := t.GetTypeRef().GetRef()
	if ref == nil || depth > 4 {
		return nil
	}
	path := ref.GetPath()
	if len(path) >= 2 && path[0] == ioApp {
		path = path[1:]
	}
	if len(path) != 1 {
		return nil
	}
	target := v.app.GetTypes()[path[0]]
	if target == nil {
		return nil
	}
	if fieldDefs(target) != nil || target.GetTuple() != nil || target.GetRelation() != nil {
		return target
	}
	return v.aliasedObject(target, depth+1)
}

func attrStr(t *sysl.Type, key string) string {
	if a := t.GetAttrs()[key]; a != nil {
		return a.GetS()
	}
	// a sized field `f(0..) <: sequence of T` is a list; its annotations sit on the element
	if l := t.GetList(); l != nil {
		return attrStr(l.GetType(), key)
	}
	return ""
}

func hasPattern(attrs map[string]*sysl.Attribute, p string) bool {
	for _, e := range attrs["patterns"].GetA().GetElt() {
		if e.GetS() == p {
			return true
		}
	}
	return false
}

func fieldDefs(t *sysl.Type) map[string]*sysl.Type {
	switch x := t.GetType().(type) {
	case *sysl.Type_Tuple_:
		return x.Tuple.GetAttrDefs()
	case *sysl.Type_Relation_:
		return x.Relation.GetAttrDefs()
	}
	return nil
}

func (v *modelView) fields(fs *factSet, owner string, defs map[string]*sysl.Type, depth int) {
	for fname, ft := range defs {
		name := fname
		// (Protocol Buffers: json_tag is the JSON spelling of the field, not its name)
		if jt := attrStr(ft, "json_tag"); jt != "" && !v.protoNames {
			name = jt
		} else if n := attrStr(ft, "name"); n != "" {
			name = n // the SQL importer renames a column that is a Sysl keyword and keeps the original here
		}
		b, arr, opt := v.base(ft)
		if strings.HasPrefix(b, "inline:") {
			if sub := v.app.GetTypes()[b[7:]]; sub != nil && depth < 3 && fieldDefs(sub) != nil {
				v.fields(fs, owner+"."+name, fieldDefs(sub), depth+1)
			}
			b = "inline"
		}
		fs.add("F", owner, name, b, b01(arr), b01(!opt))
		if hasPattern(ft.GetAttrs(), "pk") {
			fs.add("K", owner, name)
		}
	}
}

var retRE = regexp.MustCompile(`^\s*(\S+)\s*(?:<:\s*(.*?))?\s*(\[.*\])?\s*$`)

// textType reads the type text of a return payload ("sequence of Thing", "string", "Foo.Thing")
func (v *modelView) textType(s string) (string, bool) {
	s = strings.TrimSpace(s)
	arr := false
	for _, p := range []string{"sequence of ", "set of "} {
		if strings.HasPrefix(s, p) {
			arr, s = true, strings.TrimSpace(s[len(p):])
		}
	}
	s = strings.TrimSuffix(s, "?")
	s = strings.TrimPrefix(s, ioApp+".")
	switch s {
	case "int", "int32", "int64":
		return "int", arr
	case "float", "float32", "float64", "decimal":
		return "float", arr
	case "string", "bool", "date", "datetime":
		return s, arr
	}
	return "ref:" + s, arr
}

func (v *modelView) facts() [][]string {
	fs := &factSet{}
	for name, t := range v.app.GetTypes() {
		if !v.doc.has(name) {
			continue
		}
		if defs := fieldDefs(t); defs != nil || t.GetTuple() != nil || t.GetRelation() != nil {
			fs.add("T", name, "object")
			v.fields(fs, name, defs, 0)
			continue
		}
		// a type that adds nothing to the type it extends is imported as an alias of it: it has that type's fields
		if target := v.aliasedObject(t, 0); target != nil {
			fs.add("T", name, "object")
			v.fields(fs, name, fieldDefs(target), 0)
			continue
		}
		fs.add("T", name, "named")
		b, arr, _ := v.base(t)
		if b == "enum" {
			b = "string"
			for item := range t.GetEnum().GetItems() {
				fs.add("V", name, item)
			}
		}
		fs.add("A", name, b, b01(arr))
	}
	for _, ep := range v.app.GetEndpoints() {
		rp := ep.GetRestParams()
		if rp == nil {
			continue
		}
		op := rp.GetMethod().String() + " " + rp.GetPath()
		fs.add("E", op)
		for _, p := range rp.GetUrlParam() {
			b, arr, opt := v.base(p.GetType())
			fs.add("P", op, p.GetName(), "path", b, b01(arr), b01(!opt))
		}
		for _, p := range rp.GetQueryParam() {
			b, arr, opt := v.base(p.GetType())
			fs.add("P", op, p.GetName(), "query", b, b01(arr), b01(!opt))
		}
		for _, p := range ep.GetParam() {
			t := p.GetType()
			b, arr, opt := v.base(t)
			switch {
			case hasPattern(t.GetAttrs(), "body"):
				fs.add("P", op, "", "body", b, b01(arr), "-")
			case hasPattern(t.GetAttrs(), "header"):
				name := p.GetName()
				if n := attrStr(t, "name"); n != "" {
					name = n
				}
				fs.add("P", op, name, "header", b, b01(arr), b01(!opt))
			default:
				fs.add("P", op, p.GetName(), "other", b, b01(arr), b01(!opt))
			}
		}
		var walk func(ss []*sysl.Statement)
		walk = func(ss []*sysl.Statement) {
			for _, s := range ss {
				switch x := s.GetStmt().(type) {
				case *sysl.Statement_Ret:
					mm := retRE.FindStringSubmatch(x.Ret.GetPayload())
					if mm == nil {
						fs.add("R", op, x.Ret.GetPayload(), "?", "0")
						continue
					}
					code := mm[1]
					if code == "ok" {
						code = "200"
					}
					if mm[2] == "" {
						fs.add("R", op, code, "", "0")
					} else {
						b, arr := v.textType(mm[2])
						fs.add("R", op, code, b, b01(arr))
					}
				case *sysl.Statement_Cond:
					walk(x.Cond.GetStmt())
				case *sysl.Statement_Group:
					walk(x.Group.GetStmt())
				}
			}
		}
		walk(ep.GetStmt())
	}
	return fs.sorted()
}

// ---------------------------------------------------------------------------------------------------------
// facts of an exported OpenAPI document (read generically, independent of the exporter's data structures)

type oasReader struct {
	root m
	v3   bool
	fs   *factSet
}

func asMap(x any) m {
	if mm, ok := x.(map[string]any); ok {
		return mm
	}
	return nil
}

func asStr(x any) string {
	s, _ := x.(string)
	return s
}

func (r *oasReader) schema(s m) (base string, arr bool, inline m) {
	if s == nil {
		return "", false, nil
	}
	if ref := asStr(s["$ref"]); ref != "" {
		return "ref:" + ref[strings.LastIndex(ref, "/")+1:], false, nil
	}
	switch asStr(s["type"]) {
	case "array":
		b, _, in := r.schema(asMap(s["items"]))
		return b, true, in
	case "integer":
		return "int", false, nil
	case "number":
		return "float", false, nil
	case "boolean":
		return "bool", false, nil
	case "string":
		switch asStr(s["format"]) {
		case "date":
			return "date", false, nil
		case "date-time":
			return "datetime", false, nil
		}
		return "string", false, nil
	case "object":
		if s["properties"] != nil {
			return "inline", false, s
		}
		return "object", false, nil
	}
	if s["properties"] != nil {
		return "inline", false, s
	}
	return "?" + asStr(s["type"]), false, nil
}

func reqSet(s m) map[string]bool {
	out := map[string]bool{}
	if l, ok := s["required"].([]any); ok {
		for _, x := range l {
			out[asStr(x)] = true
		}
	}
	return out
}

func (r *oasReader) object(owner string, s m, depth int) {
	req := reqSet(s)
	for name, ps := range asMap(s["properties"]) {
		b, arr, in := r.schema(asMap(ps))
		if in != nil && depth < 3 {
			r.object(owner+"."+name, in, depth+1)
		}
		r.fs.add("F", owner, name, b, b01(arr), b01(req[name]))
	}
}

func (r *oasReader) params(op string, ps any) {
	l, _ := ps.([]any)
	for _, x := range l {
		p := asMap(x)
		if p == nil {
			continue
		}
		loc := asStr(p["in"])
		sch := asMap(p["schema"])
		if sch == nil {
			sch = p
		}
		b, arr, _ := r.schema(sch)
		req, _ := p["required"].(bool)
		name := asStr(p["name"])
		if loc == "body" {
			r.fs.add("P", op, "", loc, b, b01(arr), "-")
			continue
		}
		r.fs.add("P", op, name, loc, b, b01(arr), b01(req))
	}
}

func firstContentSchema(x m) m {
	content := asMap(x["content"])
	keys := make([]string, 0, len(content))
	for k := range content {
		keys = append(keys, k)
	}
	sort.Strings(keys)
	for _, k := range keys {
		if s := asMap(asMap(content[k])["schema"]); s != nil {
			return s
		}
	}
	return nil
}

func (r *oasReader) read() [][]string {
	var schemas m
	if r.v3 {
		schemas = asMap(asMap(r.root["components"])["schemas"])
	} else {
		schemas = asMap(r.root["definitions"])
	}
	for name, x := range schemas {
		s := asMap(x)
		if asStr(s["type"]) == "object" || s["properties"] != nil {
			r.fs.add("T", name, "object")
			r.object(name, s, 0)
			continue
		}
		r.fs.add("T", name, "named")
		b, arr, _ := r.schema(s)
		r.fs.add("A", name, b, b01(arr))
		if l, ok := s["enum"].([]any); ok {
			for _, v := range l {
				r.fs.add("V", name, fmt.Sprint(v))
			}
		}
	}
	for path, x := range asMap(r.root["paths"]) {
		item := asMap(x)
		for method, y := range item {
			opm := asMap(y)
			if opm == nil || method == "parameters" {
				continue
			}
			op := strings.ToUpper(method) + " " + path
			r.fs.add("E", op)
			r.params(op, item["parameters"])
			r.params(op, opm["parameters"])
			if rb := asMap(opm["requestBody"]); rb != nil {
				b, arr, _ := r.schema(firstContentSchema(rb))
				req, _ := rb["required"].(bool)
				_ = req
				r.fs.add("P", op, "", "body", b, b01(arr), "-")
			}
			for code, z := range asMap(opm["responses"]) {
				if code == "default" {
					continue
				}
				rm := asMap(z)
				s := asMap(rm["schema"])
				if r.v3 {
					s = firstContentSchema(rm)
				}
				b, arr, _ := r.schema(s)
				r.fs.add("R", op, code, b, b01(arr))
			}
		}
	}
	return r.fs.sorted()
}

func validateOpenAPI(data []byte, v3 bool) error {
	if v3 {
		doc, err := openapi3.NewLoader().LoadFromData(data)
		if err != nil {
			return err
		}
		return doc.Validate(openapi3.NewLoader().Context)
	}
	var doc2 openapi2.T
	j, err := yaml.YAMLToJSON(data)
	if err != nil {
		return err
	}
	if err := json.Unmarshal(j, &doc2); err != nil {
		return err
	}
	if doc2.Swagger != "2.0" {
		return fmt.Errorf("swagger version is %q", doc2.Swagger)
	}
	doc3, err := openapi2conv.ToV3(&doc2)
	if err != nil {
		return err
	}
	// resolve references before validating
	j3, err := json.Marshal(doc3)
	if err != nil {
		return err
	}
	loaded, err := openapi3.NewLoader().LoadFromData(j3)
	if err != nil {
		return err
	}
	return loaded.Validate(openapi3.NewLoader().Context)
}

// ---------------------------------------------------------------------------------------------------------
// stages

func guard(f func() error) (err error) {
	defer func() {
		if p := recover(); p != nil {
			err = fmt.Errorf("panic: %v", p)
		}
	}()
	return f()
}

func importerFormat(f string) string {
	switch f {
	case "spanner":
		return "spannerSQL"
	case "proto":
		return "protobuf"
	}
	return f
}

func runImporter(sc *ioScenario, file, content string, logger *logrus.Logger) (string, error) {
	out, _, err := runImporterKeep(sc, file, content, logger)
	return out, err
}

// runImporterKeep also hands back the importer object, so that the same object can be asked again.
func runImporterKeep(sc *ioScenario, file, content string, logger *logrus.Logger) (string, importer.Importer, error) {
	var out string
	var obj importer.Importer
	err := guard(func() error {
		imp, err := importer.Factory(file, false, importerFormat(sc.Fmt), []byte(content), logger)
		if err != nil {
			return err
		}
		imp, err = imp.Configure(&importer.ImporterArg{AppName: ioApp})
		if err != nil {
			return err
		}
		obj = imp
		out, err = imp.Load(content)
		return err
	})
	return out, obj, err
}

func compileText(files map[string]string, main string) (*sysl.Module, error) {
	fs := afero.NewMemMapFs()
	for n, c := range files {
		_ = afero.WriteFile(fs, n, []byte(c), 0o644)
	}
	var mod *sysl.Module
	err := guard(func() error {
		var err error
		mod, err = parse.NewParser().ParseFromFs(main, fs)
		return err
	})
	return mod, err
}

func short(err error) string {
	if err == nil {
		return ""
	}
	s := regexp.MustCompile(`\x1b\[[0-9;]*m`).ReplaceAllString(err.Error(), "")
	if len(s) > 400 {
		s = s[:400]
	}
	return s
}

func runInterop(in, out string, _ []string) error {
	w, err := tr.NewWriter(out)
	if err != nil {
		return err
	}
	defer w.Close()
	logrus.SetOutput(io.Discard)
	logger := logrus.New()
	logger.SetOutput(io.Discard)
	return tr.ReadLines(in, func(line []byte) error {
		var sc ioScenario
		if err := json.Unmarshal(line, &sc); err != nil {
			return err
		}
		w.Emit(tr.Ev{"t": sc.ID, "e": "begin", "dir": sc.Dir, "fmt": sc.Fmt, "doc": sc.Doc})
		w.Flush()
		if sc.Dir == "export" {
			interopExport(w, &sc, logger)
		} else {
			interopImport(w, &sc, logger)
		}
		return nil
	})
}

func stage(w *tr.Writer, sc *ioScenario, name string, err error, extra tr.Ev) bool {
	ev := tr.Ev{"t": sc.ID, "e": "stage", "name": name, "ok": err == nil, "msg": short(err)}
	for k, v := range extra {
		ev[k] = v
	}
	w.Emit(ev)
	return err == nil
}

func interopImport(w *tr.Writer, sc *ioScenario, logger *logrus.Logger) {
	rng := rand.New(rand.NewSource(sc.Seed + int64(sc.ID)*7919))
	var content, ext string
	shape := map[string]any{}
	err := guard(func() error {
		var err error
		switch sc.Fmt {
		case "openapi3", "swagger":
			ext = "." + sc.Enc
			pl := rng.Intn(2) == 0
			if sc.PathLevel != "" {
				pl = sc.PathLevel == "yes"
			}
			// formats beside integer and number: every third document writes some, among them ones no version of the
			// format defines
			oasFormat = func(string) string { return "" }
			if sc.ID%3 == 0 {
				shape["formats"] = "written"
				frng := rand.New(rand.NewSource(sc.Seed*31 + int64(sc.ID)))
				oasFormat = func(kind string) string {
					if kind == "int" {
						return []string{"", "int32", "int64", "uint32", "int16"}[frng.Intn(5)]
					}
					return []string{"", "float", "double", "decimal"}[frng.Intn(4)]
				}
			}
			content, err = encodeDoc(renderOpenAPI(&sc.Doc, sc.Fmt == "openapi3", pl, shape), sc.Enc)
			oasFormat = func(string) string { return "" }
		case "xsd":
			ext, content = ".xsd", renderXSD(&sc.Doc)
		case "avro":
			ext = ".avsc"
			content, err = renderAvro(&sc.Doc)
		case "proto":
			ext, content = ".proto", renderProto(&sc.Doc)
		default:
			ext, content = ".sql", renderSQL(&sc.Doc, sc.Fmt, rng, shape)
		}
		return err
	})
	if !stage(w, sc, "render", err, tr.Ev{"text": content, "shape": shape}) {
		return
	}
	file := filepath.Join(sc.Tmp, fmt.Sprintf("doc%d%s", sc.ID, ext))
	var text string
	var mod *sysl.Module
	var sameObject importer.Importer
	if sc.Via == "stmt" {
		// the same importers run for `import doc.yaml as Foo ~openapi3`
		mode := "~" + sc.Fmt
		main := fmt.Sprintf("import doc%s as %s %s\n", ext, ioApp, mode)
		stage(w, sc, "import", nil, tr.Ev{"via": "stmt"})
		mod, err = compileText(map[string]string{"main.sysl": main, "doc" + ext: content}, "main.sysl")
		if err != nil {
			// what the importer wrote, for the record (the import statement runs the same importer internally)
			text, _ = runImporter(sc, file, content, logger)
		}
		if !stage(w, sc, "compile", err, tr.Ev{"text": text}) {
			return
		}
	} else {
		text, sameObject, err = runImporterKeep(sc, file, content, logger)
		if !stage(w, sc, "import", err, tr.Ev{"text": text}) {
			return
		}
		mod, err = compileText(map[string]string{"out.sysl": text}, "out.sysl")
		if !stage(w, sc, "compile", err, nil) {
			return
		}
	}
	app := mod.GetApps()[ioApp]
	if app == nil {
		stage(w, sc, "observe", fmt.Errorf("no application %s in the compiled output", ioApp), tr.Ev{"facts": [][]string{}})
		return
	}
	v := &modelView{doc: &sc.Doc, app: app, sqlFK: sc.Fmt == "spanner" || sc.Fmt == "postgres" || sc.Fmt == "mysql", protoNames: sc.Fmt == "proto"}
	stage(w, sc, "observe", nil, tr.Ev{"facts": v.facts()})
	if sc.Via == "stmt" || sc.NoAgain {
		return
	}
	// running the import again gives identical text
	same := true
	var err2 error
	for i := 0; i < 1 && same && err2 == nil; i++ {
		var t2 string
		t2, err2 = runImporter(sc, file, content, logger)
		same = t2 == text
	}
	if err2 == nil && !same {
		err2 = fmt.Errorf("second import gives different text")
	}
	// ... and so does asking the same importer object again
	if err2 == nil && sameObject != nil {
		var t3 string
		err2 = guard(func() error {
			var err error
			t3, err = sameObject.Load(content)
			return err
		})
		if err2 == nil && t3 != text {
			err2 = fmt.Errorf("second import with the same importer gives different text")
		}
	}
	stage(w, sc, "again", err2, nil)
}

func exportDoc(app *sysl.Application, sc *ioScenario, logger *logrus.Logger) ([]byte, error) {
	var outb []byte
	err := guard(func() error {
		var err error
		if sc.Fmt == "swagger" {
			x := exporter.MakeSwaggerExporter(app, logger)
			if err = x.GenerateSwagger(); err != nil {
				return err
			}
			outb, err = x.SerializeOutput(sc.Enc)
			return err
		}
		mod := &sysl.Module{Apps: map[string]*sysl.Application{syslutil.GetAppName(app.Name): app}}
		mapper := syslwrapper.MakeAppMapper(mod)
		mapper.IndexTypes()
		simple, err := mapper.Map()
		if err != nil {
			return err
		}
		x := exporter.MakeOpenAPI3Exporter(simple, logger)
		if err = x.Export(); err != nil {
			return err
		}
		outb, err = x.SerializeOutput(syslutil.GetAppName(app.Name), sc.Enc)
		return err
	})
	return outb, err
}

var (
	rePbMsg   = regexp.MustCompile(`^(message|enum) (\w+) \{$`)
	rePbField = regexp.MustCompile(`^(repeated |optional )?([\w.]+) (\w+) = \d+;`)
	rePbVal   = regexp.MustCompile(`^(\w+) = -?\d+;`)
)

// protoFacts reads a .proto text generically: messages with their fields, enumerations with their members.
func protoFacts(text string) ([][]string, []string) {
	fs := &factSet{}
	var unknown []string
	cur, kind := "", ""
	for _, raw := range strings.Split(text, "\n") {
		l := strings.TrimSpace(raw)
		switch {
		case l == "" || strings.HasPrefix(l, "//") || strings.HasPrefix(l, "syntax") || strings.HasPrefix(l, "package") ||
			strings.HasPrefix(l, "option") || strings.HasPrefix(l, "import"):
		case rePbMsg.MatchString(l):
			g := rePbMsg.FindStringSubmatch(l)
			kind, cur = g[1], g[2]
			if kind == "message" {
				fs.add("T", cur, "object")
			} else {
				fs.add("T", cur, "named")
			}
		case l == "}":
			cur = ""
		case cur != "" && kind == "enum" && rePbVal.MatchString(l):
			fs.add("V", cur, rePbVal.FindStringSubmatch(l)[1])
		case cur != "" && kind == "message" && rePbField.MatchString(l):
			g := rePbField.FindStringSubmatch(l)
			ty, req := g[2], "1"
			if strings.TrimSpace(g[1]) == "optional" {
				req = "0"
			}
			wrappers := map[string]string{"google.protobuf.StringValue": "string", "google.protobuf.BoolValue": "bool",
				"google.protobuf.Int32Value": "int", "google.protobuf.Int64Value": "int", "google.protobuf.DoubleValue": "float",
				"google.protobuf.FloatValue": "float"}
			base := ""
			switch ty {
			case "int32", "int64", "sint32", "sint64", "uint32", "uint64":
				base = "int"
			case "double", "float":
				base = "float"
			case "string", "bool":
				base = ty
			default:
				if b, ok := wrappers[ty]; ok {
					base, req = b, "0"
				} else {
					// a field of message type says nothing about presence: it stands for both
					base = "ref:" + ty
					fs.add("F", cur, g[3], base, b01(strings.TrimSpace(g[1]) == "repeated"), "0")
				}
			}
			fs.add("F", cur, g[3], base, b01(strings.TrimSpace(g[1]) == "repeated"), req)
		default:
			unknown = append(unknown, l)
		}
	}
	return fs.sorted(), unknown
}

// interopExportProto: Sysl source -> compile -> the Protocol Buffers exporter -> read generically (no import back)
func interopExportProto(w *tr.Writer, sc *ioScenario, src string, mod *sysl.Module, logger *logrus.Logger) {
	var out bytes.Buffer
	err := guard(func() error {
		x := exporter.MakeTransformExporter(afero.NewMemMapFs(), logger, "/", "out.proto", "proto")
		return x.ExportToWriter(&out, []*sysl.Module{mod}, []string{"src.sysl"})
	})
	if !stage(w, sc, "export", err, tr.Ev{"text": out.String()}) {
		return
	}
	facts, unknown := protoFacts(out.String())
	var verr error
	if len(unknown) > 0 {
		verr = fmt.Errorf("lines that are no Protocol Buffers statement: %q", unknown[0])
	}
	if !stage(w, sc, "validate", verr, nil) {
		return
	}
	stage(w, sc, "read", nil, tr.Ev{"facts": facts})
	// the import back of an exported .proto is the import direction of the same format; here the read facts stand in
	stage(w, sc, "importback", nil, tr.Ev{"facts": facts})
}

func interopExport(w *tr.Writer, sc *ioScenario, logger *logrus.Logger) {
	src := renderSysl(&sc.Doc)
	mod, err := compileText(map[string]string{"src.sysl": src}, "src.sysl")
	if !stage(w, sc, "compile", err, tr.Ev{"text": src}) {
		return
	}
	if sc.Fmt == "proto" {
		interopExportProto(w, sc, src, mod, logger)
		return
	}
	app := mod.GetApps()[ioApp]
	outb, err := exportDoc(app, sc, logger)
	if !stage(w, sc, "export", err, tr.Ev{"text": string(outb)}) {
		return
	}
	v3 := sc.Fmt == "openapi3"
	var root m
	err = guard(func() error {
		j := outb
		if sc.Enc != "json" {
			var err error
			if j, err = yaml.YAMLToJSON(outb); err != nil {
				return err
			}
		}
		if err := json.Unmarshal(j, &root); err != nil {
			return err
		}
		err := validateOpenAPI(outb, v3)
		if err != nil && strings.Contains(err.Error(), "kin-openapi bug found") {
			// the validating library gives up on a schema that refers to itself several times; that says nothing
			// about the document, which is then judged by the reader and the import back only
			w.Emit(tr.Ev{"t": sc.ID, "e": "note", "what": "validator limitation: " + short(err)})
			return nil
		}
		return err
	})
	stage(w, sc, "validate", err, nil)
	if root == nil {
		return
	}
	if err != nil {
		// the machine ends a run at a failed stage; the remaining observations are still reported for the record
		w.Emit(tr.Ev{"t": sc.ID, "e": "note", "what": "validation failed; later stages not judged"})
	}
	r := &oasReader{root: root, v3: v3, fs: &factSet{}}
	var facts [][]string
	rerr := guard(func() error { facts = r.read(); return nil })
	if facts == nil {
		facts = [][]string{}
	}
	if err == nil {
		stage(w, sc, "read", rerr, tr.Ev{"facts": facts})
	} else {
		w.Emit(tr.Ev{"t": sc.ID, "e": "unjudged", "name": "read", "facts": facts})
		return
	}
	// importing the exported document back
	file := filepath.Join(sc.Tmp, fmt.Sprintf("exp%d.%s", sc.ID, sc.Enc))
	text, err := runImporter(sc, file, string(outb), logger)
	var back [][]string
	if err == nil {
		var m2 *sysl.Module
		m2, err = compileText(map[string]string{"back.sysl": text}, "back.sysl")
		if err == nil {
			if a2 := m2.GetApps()[ioApp]; a2 != nil {
				back = (&modelView{doc: &sc.Doc, app: a2}).facts()
			} else {
				err = fmt.Errorf("no application %s after importing the exported document", ioApp)
			}
		}
	}
	if back == nil {
		back = [][]string{}
	}
	stage(w, sc, "importback", err, tr.Ev{"facts": back, "text": text})
	_ = os.Remove(file)
	if sc.Cli != "" {
		w.Emit(exportRewrite(sc, src))
	}
}
