package main

// Compile family (C01): compiles arbitrary byte strings as Sysl source (alone or through an
// import) in a guarded goroutine with a wall-clock bound and records the outcome.

import (
	"encoding/base64"
	"encoding/json"
	"fmt"
	"io"
	"os"
	"runtime/debug"
	"strings"
	"time"

	"github.com/anz-bank/sysl/pkg/parse"
	"github.com/anz-bank/sysl/pkg/syslutil"
	"github.com/sirupsen/logrus"
	"github.com/spf13/afero"

	"verifharness/internal/tr"
)

func init() { families["compile"] = runCompile }

type cpScenario struct {
	ID    int               `json:"id"`
	Files map[string]string `json:"files"` // name -> base64 content
	Root  string            `json:"root"`
	Bound int               `json:"bound"` // seconds
}

type cpOutcome struct {
	ok     bool
	err    error
	pan    string
	site   string
	hasMod bool
}

func panicSite(stack string) string {
	// first frame inside the repository below the panic machinery
	lines := strings.Split(stack, "\n")
	for _, l := range lines {
		l = strings.TrimSpace(l)
		if strings.HasPrefix(l, "github.com/anz-bank/sysl/") && !strings.Contains(l, "PanicOnError") &&
			!strings.Contains(l, "syslutil.Assert") {
			if i := strings.LastIndex(l, "("); i > 0 {
				l = l[:i]
			}
			return strings.TrimPrefix(l, "github.com/anz-bank/sysl/")
		}
	}
	return "unknown"
}

func compileGuarded(files map[string][]byte, root string, bound time.Duration) cpOutcome {
	fs := afero.NewMemMapFs()
	for n, c := range files {
		_ = afero.WriteFile(fs, n, c, 0o644)
	}
	ch := make(chan cpOutcome, 1)
	go func() {
		var o cpOutcome
		defer func() {
			if p := recover(); p != nil {
				o.pan = fmt.Sprint(p)
				o.site = panicSite(string(debug.Stack()))
			}
			ch <- o
		}()
		m, err := parse.NewParser().ParseFromFs(root, fs)
		o.ok, o.err, o.hasMod = err == nil, err, m != nil
	}()
	select {
	case o := <-ch:
		return o
	case <-time.After(bound):
		return cpOutcome{pan: "timeout", site: "timeout"}
	}
}

func runCompile(in, out string, _ []string) error {
	w, err := tr.NewWriter(out)
	if err != nil {
		return err
	}
	defer w.Close()
	logrus.SetOutput(io.Discard)
	devnull, _ := os.OpenFile(os.DevNull, os.O_WRONLY, 0)
	os.Stderr = devnull // ANTLR diagnostics
	return tr.ReadLines(in, func(line []byte) error {
		var sc cpScenario
		if err := json.Unmarshal(line, &sc); err != nil {
			return err
		}
		files := map[string][]byte{}
		for n, c := range sc.Files {
			b, err := base64.StdEncoding.DecodeString(c)
			if err != nil {
				return err
			}
			files[n] = b
		}
		bound := time.Duration(sc.Bound) * time.Second
		if bound == 0 {
			bound = 10 * time.Second
		}
		w.Emit(tr.Ev{"t": sc.ID, "e": "start"})
		w.Flush() // a fatal runtime error kills the process: the orchestrator finds the culprit from the trace
		o := compileGuarded(files, sc.Root, bound)
		if o.pan == "timeout" {
			// confirm with a three times larger bound before calling it a hang
			o = compileGuarded(files, sc.Root, 3*bound)
		}
		switch {
		case o.pan == "timeout":
			w.Emit(tr.Ev{"t": sc.ID, "e": "timeout", "bound_s": int(3 * bound / time.Second)})
		case o.pan != "":
			w.Emit(tr.Ev{"t": sc.ID, "e": "panic", "msg": o.pan, "site": o.site})
		case o.ok:
			w.Emit(tr.Ev{"t": sc.ID, "e": "ok", "output": o.hasMod})
		default:
			status := 1
			if ex, is := o.err.(syslutil.Exit); is {
				status = ex.Code
			}
			w.Emit(tr.Ev{"t": sc.ID, "e": "error", "status": status, "message": o.err.Error() != "", "text": o.err.Error()})
		}
		return nil
	})
}
