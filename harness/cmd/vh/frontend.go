package main

// Frontend family (C02, C04, C08, C03): renders TLC-generated declaration
// sequences to Sysl text, compiles them with the real parser, and records the
// projected model, the recorded locations and layout-variant digests.

import (
	"bytes"
	"crypto/sha256"
	"encoding/hex"
	"encoding/json"
	"fmt"
	"io"
	"regexp"
	"strings"
	"time"

	"github.com/anz-bank/sysl/pkg/parse"
	"github.com/anz-bank/sysl/pkg/printer"
	"github.com/anz-bank/sysl/pkg/sysl"
	"github.com/sirupsen/logrus"
	"github.com/spf13/afero"
	"google.golang.org/protobuf/proto"

	"verifharness/internal/project"
	"verifharness/internal/render"
	"verifharness/internal/tr"
)

func init() { families["frontend"] = runFrontend }

type feScenario struct {
	ID       int           `json:"id"`
	Decls    []render.Decl `json:"decls"`
	Seed     int64         `json:"seed"`
	Variants int           `json:"variants"` // number of extra layouts to compile and compare (C03)
	Joined   bool          `json:"joined"`   // also compile the joined form (C04)
	Text     bool          `json:"text"`     // include the rendered text in the begin event
	Lint     bool          `json:"lint"`     // record the linter's warnings about calls (beyond the listed properties)
	Reprint  bool          `json:"reprint"`  // print the model back as Sysl text, compile that and record its facts (beyond the listed properties)
}

// lint <file:line:col>: Application|Endpoint|Method '<x>' does not exist for call '<App> <- <endpoint>'
var reLint = regexp.MustCompile(`lint \S+: (Application|Endpoint|Method) '([^']*)' does not exist for call '(.*?) <- ([^'\\]*)'`)

type compileResult struct {
	m     *sysl.Module
	err   error
	panic string
}

// compileFiles compiles main.sysl from an in-memory file system, guarded.
func compileFiles(files []*render.File, root string) compileResult {
	fs := afero.NewMemMapFs()
	for _, f := range files {
		_ = afero.WriteFile(fs, f.Name, []byte(f.Text()), 0o644)
	}
	ch := make(chan compileResult, 1)
	go func() {
		var r compileResult
		defer func() {
			if p := recover(); p != nil {
				r.panic = fmt.Sprint(p)
			}
			ch <- r
		}()
		r.m, r.err = parse.NewParser().ParseFromFs(root, fs)
	}()
	select {
	case r := <-ch:
		return r
	case <-time.After(30 * time.Second):
		return compileResult{panic: "timeout"}
	}
}

// digestNoLoc is the digest of the deterministic binary encoding after clearing source contexts.
func digestNoLoc(m *sysl.Module) string {
	c := proto.Clone(m).(*sysl.Module)
	clearLocs(c.ProtoReflect())
	c.Imports = nil
	b, err := proto.MarshalOptions{Deterministic: true}.Marshal(c)
	if err != nil {
		return "marshal error: " + err.Error()
	}
	h := sha256.Sum256(b)
	return hex.EncodeToString(h[:8])
}

func factsJSON(fs []project.Fact) [][]string {
	out := make([][]string, len(fs))
	for i, f := range fs {
		out[i] = []string(f)
	}
	return out
}

var feLayoutUnits = []string{" ", "  ", "   ", "    ", "        ", "\t", "\t\t", " \t", "  \t "}

func runOneFrontend(sc feScenario) []tr.Ev {
	var evs []tr.Ev
	emit := func(e tr.Ev) { e["t"] = sc.ID; evs = append(evs, e) }
	lay := render.Layout{Seed: sc.Seed*1000003 + int64(sc.ID), Units: feLayoutUnits, Blank: 0.12, Comment: 0.1}
	res := render.Render(sc.Decls, lay)
	begin := tr.Ev{"e": "begin", "seed": sc.Seed}
	if sc.Text {
		txt := map[string]string{}
		for _, f := range res.Files {
			txt[f.Name] = f.Text()
		}
		begin["text"] = txt
	}
	emit(begin)
	for _, d := range res.Decls {
		emit(tr.Ev{"e": "decl", "d": d})
	}
	var lintLog bytes.Buffer
	if sc.Lint {
		logrus.SetOutput(&lintLog)
		logrus.SetFormatter(&logrus.TextFormatter{DisableColors: true, DisableTimestamp: true})
	}
	cr := compileFiles(res.Files, "main.sysl")
	if sc.Lint {
		logrus.SetOutput(io.Discard)
	}
	if cr.panic != "" {
		emit(tr.Ev{"e": "panic", "msg": cr.panic})
		return evs
	}
	if cr.err != nil {
		emit(tr.Ev{"e": "ret", "ok": false, "err": cr.err.Error()})
		return evs
	}
	p := project.Module(cr.m, project.Options{Locs: true})
	emit(tr.Ev{"e": "state", "facts": factsJSON(p.Facts)})
	emit(tr.Ev{"e": "locs", "facts": factsJSON(p.Locs)})
	if sc.Lint {
		ws := [][]string{}
		for _, mm := range reLint.FindAllStringSubmatch(lintLog.String(), -1) {
			ws = append(ws, []string{mm[1], mm[3], mm[4]})
		}
		emit(tr.Ev{"e": "lint", "warnings": ws})
	}
	if sc.Reprint {
		ev := tr.Ev{"e": "reprint", "ok": false, "facts": [][]string{}, "msg": ""}
		func() {
			defer func() {
				if p := recover(); p != nil {
					ev["msg"] = "panic: " + fmt.Sprint(p)
				}
			}()
			var buf bytes.Buffer
			printer.Module(&buf, cr.m)
			rc := compileFiles([]*render.File{{Name: "main.sysl", Lines: strings.Split(strings.TrimSuffix(buf.String(), "\n"), "\n")}}, "main.sysl")
			if sc.Text {
				ev["printed"] = buf.String()
			}
			if rc.panic != "" || rc.err != nil {
				ev["msg"] = fmt.Sprint(rc.panic, rc.err)
				return
			}
			ev["ok"], ev["facts"] = true, factsJSON(project.Module(rc.m, project.Options{}).Facts)
		}()
		emit(ev)
	}
	base := digestNoLoc(cr.m)
	// layout variants of the same declarations (C03)
	for v := 1; v <= sc.Variants; v++ {
		vl := lay
		vl.Seed = lay.Seed + int64(v)*7919
		switch v % 6 {
		case 1:
			vl.Canonical = true
		case 2:
			vl.Blank, vl.Comment = 0.5, 0
		case 3:
			vl.Blank, vl.Comment = 0, 0.5
		case 4: // space-only units, 4-space chunks turned into tabs line by line
			vl.Units = []string{" ", "  ", "   ", "    ", "     ", "        "}
			vl.TabMix = 0.5
		case 5: // scaled indentation
			vl.Units = []string{" ", "  ", "    "}
			vl.Scale = 2 + v%3
		}
		vr := render.Render(sc.Decls, vl)
		vc := compileFiles(vr.Files, "main.sysl")
		ev := tr.Ev{"e": "variant", "v": v, "accepted": vc.err == nil && vc.panic == "", "base": base}
		if vc.panic != "" {
			ev["panic"] = vc.panic
		}
		if vc.err == nil && vc.panic == "" {
			ev["digest"] = digestNoLoc(vc.m)
		} else {
			ev["digest"] = ""
		}
		emit(ev)
	}
	emit(tr.Ev{"e": "ret", "ok": true})
	return evs
}

func runFrontend(in, out string, _ []string) error {
	w, err := tr.NewWriter(out)
	if err != nil {
		return err
	}
	defer w.Close()
	logrus.SetOutput(io.Discard)
	return tr.ReadLines(in, func(line []byte) error {
		var sc feScenario
		if err := json.Unmarshal(line, &sc); err != nil {
			return fmt.Errorf("bad scenario: %v", err)
		}
		// the library can end the process (logrus.Fatal, stack exhaustion): say which program is running
		w.Emit(tr.Ev{"t": sc.ID, "e": "start"})
		w.Flush()
		w.EmitAll(runOneFrontend(sc))
		return nil
	})
}
