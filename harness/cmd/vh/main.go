// vh: verification harness driver. vh <family> -in scenarios.ndjson -out trace.ndjson
package main

import (
	"flag"
	"fmt"
	"os"
)

type family func(in, out string, args []string) error

var families = map[string]family{}

func main() {
	if len(os.Args) < 2 {
		fmt.Fprintln(os.Stderr, "usage: vh <family> [-in f] [-out f] [args]")
		os.Exit(2)
	}
	fam, ok := families[os.Args[1]]
	if !ok {
		fmt.Fprintln(os.Stderr, "unknown family", os.Args[1])
		os.Exit(2)
	}
	fs := flag.NewFlagSet(os.Args[1], flag.ExitOnError)
	in := fs.String("in", "-", "scenario ndjson")
	out := fs.String("out", "-", "trace ndjson")
	_ = fs.Parse(os.Args[2:])
	if err := fam(*in, *out, fs.Args()); err != nil {
		fmt.Fprintln(os.Stderr, "vh:", err)
		os.Exit(2)
	}
}
