package main

// Codec family (C09): encodes a compiled model in every encoding, decodes the bytes again,
// checks JSON well-formedness, and re-imports each artefact through an import statement.

import (
	"crypto/sha256"
	"encoding/hex"
	"encoding/json"
	"fmt"
	"io"
	"os"
	"os/exec"
	"path/filepath"

	"github.com/anz-bank/sysl/pkg/parse"
	"github.com/anz-bank/sysl/pkg/pbutil"
	"github.com/anz-bank/sysl/pkg/sysl"
	"github.com/sirupsen/logrus"
	"github.com/spf13/afero"
	"google.golang.org/protobuf/proto"

	"verifharness/internal/render"
	"verifharness/internal/tr"
)

func init() { families["codec"] = runCodec }

type cdScenario struct {
	ID    int           `json:"id"`
	Decls []render.Decl `json:"decls"`
	Text  string        `json:"text"` // used instead of decls when given
	Seed  int64         `json:"seed"`
	Path  string        `json:"path"` // a corpus file below Root, used instead of decls/text
	Root  string        `json:"root"`
	Cli   string        `json:"cli"` // encode with this sysl binary ("pb" command) instead of the library calls
	Tmp   string        `json:"tmp"`
	// a document that is not a compiled model, imported once as api.json and once as api.yaml
	Foreign string `json:"foreign"`
	Mode    string `json:"mode"`
	// Over: every output file already holds the artefact of an earlier, larger model when the model is written
	Over bool `json:"over"`
}

// earlierModel is the model with one more application: what the same command wrote before the application was removed.
func earlierModel(m *sysl.Module) *sysl.Module {
	c := proto.Clone(m).(*sysl.Module)
	if c.Apps == nil {
		c.Apps = map[string]*sysl.Application{}
	}
	eps := map[string]*sysl.Endpoint{}
	for _, n := range []string{"GET /removed/{id}", "Retired endpoint with a long name", "zz"} {
		eps[n] = &sysl.Endpoint{Name: n, Docstring: "an endpoint that existed when the file was written the first time, " + n,
			Stmt: []*sysl.Statement{{Stmt: &sysl.Statement_Action{Action: &sysl.Action{Action: "something that used to happen"}}}}}
	}
	c.Apps["Zz :: Removed Since"] = &sysl.Application{Name: &sysl.AppName{Part: []string{"Zz", "Removed Since"}}, Endpoints: eps}
	return c
}

func detDigest(m proto.Message) string {
	b, err := proto.MarshalOptions{Deterministic: true}.Marshal(m)
	if err != nil {
		return "marshal error"
	}
	h := sha256.Sum256(b)
	return hex.EncodeToString(h[:8])
}

func appsDigest(m *sysl.Module) string {
	c := proto.Clone(m).(*sysl.Module)
	clearLocs(c.ProtoReflect())
	return detDigest(&sysl.Module{Apps: c.GetApps()})
}

func modelDigests(m *sysl.Module) tr.Ev {
	return tr.Ev{"full": detDigest(m), "noloc": digestNoLocKeepImports(m), "apps": appsDigest(m)}
}

func digestNoLocKeepImports(m *sysl.Module) string {
	c := proto.Clone(m).(*sysl.Module)
	clearLocs(c.ProtoReflect())
	return detDigest(c)
}

func runCodec(in, out string, _ []string) error {
	w, err := tr.NewWriter(out)
	if err != nil {
		return err
	}
	defer w.Close()
	logrus.SetOutput(io.Discard)
	type enc struct {
		fmt     string
		compact bool
		file    string
	}
	encs := []enc{{"pb", false, "model.pb"}, {"json", false, "model.pb.json"}, {"json", true, "modelc.pb.json"},
		{"textpb", false, "model.textpb"}, {"textpb", true, "modelc.textpb"}}
	return tr.ReadLines(in, func(line []byte) error {
		var sc cdScenario
		if err := json.Unmarshal(line, &sc); err != nil {
			return err
		}
		if sc.Foreign != "" {
			w.Emit(tr.Ev{"t": sc.ID, "e": "begin"})
			ev := tr.Ev{"t": sc.ID, "e": "foreign"}
			for _, ext := range []string{"json", "yaml"} {
				func() {
					ev["ok"+ext], ev["apps"+ext] = false, ""
					defer func() {
						if p := recover(); p != nil {
							ev["msg"+ext] = fmt.Sprint(p)
						}
					}()
					fs := afero.NewMemMapFs()
					_ = afero.WriteFile(fs, "api."+ext, []byte(sc.Foreign), 0o644)
					_ = afero.WriteFile(fs, "main.sysl", []byte("import api."+ext+" as Foo :: Api ~"+sc.Mode+"\n"), 0o644)
					r, err := parse.NewParser().ParseFromFs("main.sysl", fs)
					if err != nil {
						ev["msg"+ext] = err.Error()
						return
					}
					ev["ok"+ext], ev["apps"+ext] = true, appsDigest(r)
				}()
			}
			w.Emit(ev)
			return nil
		}
		text := sc.Text
		if text == "" && sc.Path == "" {
			text = render.Render(sc.Decls, render.Layout{Seed: sc.Seed, Canonical: true}).Files[0].Text()
		}
		var srcfs afero.Fs = afero.NewMemMapFs()
		src := "src.sysl"
		if sc.Path != "" {
			srcfs, src = afero.NewBasePathFs(afero.NewOsFs(), sc.Root), sc.Path
		} else {
			_ = afero.WriteFile(srcfs, src, []byte(text), 0o644)
		}
		w.Emit(tr.Ev{"t": sc.ID, "e": "begin"})
		var m *sysl.Module
		func() {
			defer func() {
				if p := recover(); p != nil {
					w.Emit(tr.Ev{"t": sc.ID, "e": "compilefail", "msg": fmt.Sprint(p)})
				}
			}()
			var err error
			m, err = parse.NewParser().ParseFromFs(src, srcfs)
			if err != nil {
				m = nil
				w.Emit(tr.Ev{"t": sc.ID, "e": "compilefail", "msg": err.Error()})
			}
		}()
		if m == nil {
			return nil
		}
		ev := modelDigests(m)
		ev["t"], ev["e"] = sc.ID, "model"
		w.Emit(ev)
		for _, e := range encs {
			fs := afero.NewMemMapFs()
			var err error
			opt := pbutil.OutputOptions{Compact: e.compact}
			var prior []byte
			if sc.Over {
				em := earlierModel(m)
				perr := libEncode(em, e.fmt, e.file, fs, pbutil.OutputOptions{})
				w.Emit(tr.Ev{"t": sc.ID, "e": "prior", "fmt": e.fmt, "compact": e.compact, "ok": perr == nil, "full": detDigest(em), "msg": fmt.Sprint(perr)})
				prior, _ = afero.ReadFile(fs, e.file)
			}
			switch {
			case sc.Cli != "":
				err = cliEncode(sc, text, e.fmt, e.compact, e.file, fs, prior)
			default:
				err = libEncode(m, e.fmt, e.file, fs, opt)
			}
			w.Emit(tr.Ev{"t": sc.ID, "e": "encode", "fmt": e.fmt, "compact": e.compact, "ok": err == nil, "msg": fmt.Sprint(err)})
			if err != nil {
				continue
			}
			b, _ := afero.ReadFile(fs, e.file)
			if e.fmt == "json" {
				w.Emit(tr.Ev{"t": sc.ID, "e": "jsonvalid", "compact": e.compact, "ok": json.Valid(b)})
			}
			func() {
				dev := tr.Ev{"t": sc.ID, "e": "decode", "fmt": e.fmt, "compact": e.compact, "ok": false, "full": "", "noloc": ""}
				defer func() {
					if p := recover(); p != nil {
						dev["msg"] = fmt.Sprint(p)
					}
					w.Emit(dev)
				}()
				d, err := pbutil.FromPB(e.file, fs)
				if err != nil {
					dev["msg"] = err.Error()
					return
				}
				dev["ok"], dev["full"], dev["noloc"] = true, detDigest(d), digestNoLocKeepImports(d)
			}()
			// a specification that only imports the compiled file
			func() {
				rev := tr.Ev{"t": sc.ID, "e": "reimport", "fmt": e.fmt, "compact": e.compact, "ok": false, "apps": ""}
				defer func() {
					if p := recover(); p != nil {
						rev["msg"] = fmt.Sprint(p)
					}
					w.Emit(rev)
				}()
				_ = afero.WriteFile(fs, "main.sysl", []byte("import "+e.file+"\n"), 0o644)
				r, err := parse.NewParser().ParseFromFs("main.sysl", fs)
				if err != nil {
					rev["msg"] = err.Error()
					return
				}
				rev["ok"], rev["apps"] = true, appsDigest(r)
			}()
		}
		if sc.Cli == "" {
			// the same module, edited in place after it has been written once, is written again: the second binary
			// artefact is the edited model (whatever the first emission left behind in the messages)
			names := sortedAppNames(m)
			if len(names) > 0 {
				a := m.GetApps()[names[0]]
				a.LongName += " (edited: \"quoted\", back\\slash, é)"
				if a.Attrs == nil {
					a.Attrs = map[string]*sysl.Attribute{}
				}
				a.Attrs["edited"] = &sysl.Attribute{Attribute: &sysl.Attribute_S{S: "a value that was not there when the model was first written"}}
				// (the digests are taken from a copy: measuring the module itself would refresh what the first
				// emission left in it)
				ev := modelDigests(proto.Clone(m).(*sysl.Module))
				ev["t"], ev["e"] = sc.ID, "edited"
				w.Emit(ev)
				fs := afero.NewMemMapFs()
				err := libEncode(m, "pb", "model.pb", fs, pbutil.OutputOptions{})
				w.Emit(tr.Ev{"t": sc.ID, "e": "encode", "fmt": "pb", "compact": false, "ok": err == nil, "msg": fmt.Sprint(err), "after": "edit"})
				if err == nil {
					dev := tr.Ev{"t": sc.ID, "e": "decode", "fmt": "pb", "compact": false, "ok": false, "full": "", "noloc": ""}
					func() {
						defer func() {
							if p := recover(); p != nil {
								dev["msg"] = fmt.Sprint(p)
							}
						}()
						d, err := pbutil.FromPB("model.pb", fs)
						if err != nil {
							dev["msg"] = err.Error()
							return
						}
						dev["ok"], dev["full"], dev["noloc"] = true, detDigest(d), digestNoLocKeepImports(d)
					}()
					w.Emit(dev)
				}
			}
		}
		return nil
	})
}

func libEncode(m *sysl.Module, f, file string, fs afero.Fs, opt pbutil.OutputOptions) error {
	switch f {
	case "pb":
		return pbutil.GeneratePBBinaryMessageFile(m, file, fs)
	case "json":
		return pbutil.JSONPBWithOpt(m, file, fs, opt)
	default:
		return pbutil.TextPBWithOpt(m, file, fs, opt)
	}
}

// cliEncode runs "sysl pb --mode <fmt> [--compact] -o <file>" in a scratch directory and copies the bytes into fs.
func cliEncode(sc cdScenario, text, f string, compact bool, file string, fs afero.Fs, prior []byte) error {
	dir, err := os.MkdirTemp(sc.Tmp, "cli")
	if err != nil {
		return err
	}
	defer os.RemoveAll(dir)
	root, src := dir, "src.sysl"
	if sc.Path != "" {
		root, src = sc.Root, sc.Path
	} else if err := os.WriteFile(filepath.Join(dir, src), []byte(text), 0o644); err != nil {
		return err
	}
	outf := filepath.Join(dir, file)
	if prior != nil {
		if err := os.WriteFile(outf, prior, 0o644); err != nil {
			return err
		}
	}
	args := []string{"--root", root, "pb", "--mode", f, "-o", outf}
	if compact {
		args = append(args, "--compact")
	}
	cmd := exec.Command(sc.Cli, append(args, src)...)
	cmd.Dir = root
	if o, err := cmd.CombinedOutput(); err != nil {
		return fmt.Errorf("%v: %s", err, o)
	}
	b, err := os.ReadFile(outf)
	if err != nil {
		return err
	}
	return afero.WriteFile(fs, file, b, 0o644)
}
