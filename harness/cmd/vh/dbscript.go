package main

// DbCatalog family (C16): renders version histories of relational models, generates creation and
// delta scripts with the real generator and records the emitted DDL statement by statement.

import (
	"encoding/json"
	"fmt"
	"io"
	"math/rand"
	"regexp"
	"strings"
	"time"

	"github.com/anz-bank/sysl/pkg/database"
	"github.com/anz-bank/sysl/pkg/parse"
	"github.com/anz-bank/sysl/pkg/sysl"
	"github.com/sirupsen/logrus"
	"github.com/spf13/afero"

	"verifharness/internal/tr"
)

func init() { families["dbscript"] = runDbScript }

type dbCol struct {
	Name    string `json:"name"`
	Ref     bool   `json:"ref"`
	Prim    string `json:"prim"`
	Size    int    `json:"size"`
	Rt      string `json:"rt"`
	Rc      string `json:"rc"`
	Pk      bool   `json:"pk"`
	Autoinc bool   `json:"autoinc"`
}

type dbTable struct {
	Name string  `json:"name"`
	Cols []dbCol `json:"cols"`
}

type dbScenario struct {
	ID       int         `json:"id"`
	Versions [][]dbTable `json:"versions"`
	Seed     int64       `json:"seed"`
	Split    bool        `json:"split"` // spread the tables of a version over two files
	Text     bool        `json:"text"`
	// KeepOrder: the tables are written in the order given (not shuffled); Reps: every script is generated this many
	// times and every distinct text is judged (the generators walk Go maps)
	KeepOrder bool `json:"keeporder"`
	Reps      int  `json:"reps"`
}

var dbKeepOrder bool

func dbRender(v []dbTable, rng *rand.Rand, split bool) map[string]string {
	order := rng.Perm(len(v))
	if dbKeepOrder {
		for i := range order {
			order[i] = i
		}
	}
	files := map[string]*strings.Builder{"main.sysl": {}, "part.sysl": {}}
	if split {
		files["main.sysl"].WriteString("import part\n\n")
	}
	files["main.sysl"].WriteString("Db:\n")
	files["part.sysl"].WriteString("Db:\n")
	used := map[string]bool{"main.sysl": false, "part.sysl": false}
	for _, i := range order {
		t := v[i]
		fn := "main.sysl"
		if split && rng.Intn(2) == 0 {
			fn = "part.sysl"
		}
		used[fn] = true
		b := files[fn]
		fmt.Fprintf(b, "    !table %s:\n", t.Name)
		for _, ci := range rng.Perm(len(t.Cols)) {
			c := t.Cols[ci]
			ty := c.Prim
			if c.Ref {
				ty = c.Rt + "." + c.Rc
			} else if c.Prim == "string" && c.Size > 0 {
				ty = fmt.Sprintf("string(%d)", c.Size)
			}
			var tags []string
			if c.Pk {
				tags = append(tags, "~pk")
			}
			if c.Autoinc {
				tags = append(tags, "~autoinc")
			}
			a := ""
			if len(tags) > 0 {
				a = " [" + strings.Join(tags, ", ") + "]"
			}
			fmt.Fprintf(b, "        %s <: %s%s\n", c.Name, ty, a)
		}
	}
	out := map[string]string{}
	for fn, b := range files {
		s := b.String()
		if !used[fn] {
			s += "    ...\n"
		}
		out[fn] = s
	}
	if !split {
		delete(out, "part.sysl")
	}
	return out
}

var (
	reComment   = regexp.MustCompile(`(?s)/\*.*?\*/`)
	reCreate    = regexp.MustCompile(`(?s)^CREATE TABLE (\S+?)\s*\((.*)\)$`)
	reConsPK    = regexp.MustCompile(`^CONSTRAINT (\S+) PRIMARY KEY\s*\((.*)\)$`)
	reConsFK    = regexp.MustCompile(`^CONSTRAINT (\S+) FOREIGN KEY\s*\((\S+)\) REFERENCES (\S+?)\s*\((\S+)\)$`)
	reAddCol    = regexp.MustCompile(`^ALTER TABLE (\S+) ADD COLUMN (\S+)\s*(.*)$`)
	reAddCons   = regexp.MustCompile(`^ALTER TABLE (\S+) ADD (CONSTRAINT .*)$`)
	reDropCons  = regexp.MustCompile(`^ALTER TABLE (\S+) DROP CONSTRAINT (\S+)$`)
	reDropCol   = regexp.MustCompile(`^ALTER TABLE (\S+) DROP COLUMN (\S+)$`)
	reAlterType = regexp.MustCompile(`^ALTER TABLE (\S+) ALTER COLUMN (\S+) TYPE\s*(.*)$`)
	reSetDef    = regexp.MustCompile(`^ALTER TABLE (\S+) ALTER COLUMN (\S+) SET DEFAULT nextval\('(\S+)'\)$`)
	reCreateSeq = regexp.MustCompile(`^CREATE SEQUENCE (\S+)$`)
	reOwnSeq    = regexp.MustCompile(`^ALTER SEQUENCE (\S+) OWNED BY (\S+)\.(\S+)$`)
	reSetval    = regexp.MustCompile(`^select setval\('(\S+)',.*\) from (\S+)$`)
)

// dbParse turns the emitted SQL into statement events.
func dbParse(sql string) []tr.Ev {
	sql = reComment.ReplaceAllString(sql, "")
	var out []tr.Ev
	for _, raw := range strings.Split(sql, ";") {
		st := strings.TrimSpace(raw)
		if st == "" {
			continue
		}
		flat := strings.Join(strings.Fields(st), " ")
		switch {
		case reCreate.MatchString(st):
			m := reCreate.FindStringSubmatch(st)
			ev := tr.Ev{"e": "create_table", "t": m[1]}
			cols, pk, fks := [][]string{}, []string{}, [][]string{}
			bad := []string{}
			for _, line := range strings.Split(m[2], "\n") {
				l := strings.TrimSuffix(strings.TrimSpace(line), ",")
				l = strings.Join(strings.Fields(l), " ")
				switch {
				case l == "":
				case reConsPK.MatchString(l):
					for _, c := range strings.Split(reConsPK.FindStringSubmatch(l)[2], ",") {
						pk = append(pk, strings.TrimSpace(c))
					}
				case reConsFK.MatchString(l):
					f := reConsFK.FindStringSubmatch(l)
					fks = append(fks, []string{f[2], f[3], f[4]})
				case strings.HasPrefix(l, "CONSTRAINT"):
					bad = append(bad, l)
				default:
					parts := strings.SplitN(l, " ", 2)
					ty := ""
					if len(parts) > 1 {
						ty = parts[1]
					}
					cols = append(cols, []string{parts[0], ty})
				}
			}
			ev["cols"], ev["pk"], ev["fks"] = cols, pk, fks
			if len(bad) > 0 {
				ev = tr.Ev{"e": "other", "text": flat}
			}
			out = append(out, ev)
		case reSetDef.MatchString(flat):
			m := reSetDef.FindStringSubmatch(flat)
			out = append(out, tr.Ev{"e": "set_default", "t": m[1], "c": m[2], "s": m[3]})
		case reAddCol.MatchString(flat):
			m := reAddCol.FindStringSubmatch(flat)
			out = append(out, tr.Ev{"e": "add_column", "t": m[1], "c": m[2], "ty": strings.TrimSpace(m[3])})
		case reAddCons.MatchString(flat):
			m := reAddCons.FindStringSubmatch(flat)
			switch {
			case reConsPK.MatchString(m[2]):
				f := reConsPK.FindStringSubmatch(m[2])
				cols := []string{}
				for _, c := range strings.Split(f[2], ",") {
					if c = strings.TrimSpace(c); c != "" {
						cols = append(cols, c)
					}
				}
				out = append(out, tr.Ev{"e": "add_pk", "t": m[1], "name": f[1], "cols": cols})
			case reConsFK.MatchString(m[2]):
				f := reConsFK.FindStringSubmatch(m[2])
				out = append(out, tr.Ev{"e": "add_fk", "t": m[1], "name": f[1], "c": f[2], "t2": f[3], "c2": f[4]})
			default:
				out = append(out, tr.Ev{"e": "other", "text": flat})
			}
		case reDropCons.MatchString(flat):
			m := reDropCons.FindStringSubmatch(flat)
			name := m[2]
			kind, col := "fk", ""
			up := strings.ToUpper(m[1])
			switch {
			case name == up+"_PK":
				kind = "pk"
			case strings.HasPrefix(name, up+"_") && strings.HasSuffix(name, "_FK"):
				col = strings.ToLower(strings.TrimSuffix(strings.TrimPrefix(name, up+"_"), "_FK"))
			default:
				kind = "unknown"
			}
			out = append(out, tr.Ev{"e": "drop_constraint", "t": m[1], "name": name, "kind": kind, "c": col})
		case reDropCol.MatchString(flat):
			m := reDropCol.FindStringSubmatch(flat)
			out = append(out, tr.Ev{"e": "drop_column", "t": m[1], "c": m[2]})
		case reAlterType.MatchString(flat):
			m := reAlterType.FindStringSubmatch(flat)
			out = append(out, tr.Ev{"e": "alter_type", "t": m[1], "c": m[2], "ty": strings.TrimSpace(m[3])})
		case reCreateSeq.MatchString(flat):
			out = append(out, tr.Ev{"e": "create_sequence", "s": reCreateSeq.FindStringSubmatch(flat)[1]})
		case reOwnSeq.MatchString(flat):
			m := reOwnSeq.FindStringSubmatch(flat)
			out = append(out, tr.Ev{"e": "own_sequence", "s": m[1], "t": m[2], "c": m[3]})
		case reSetval.MatchString(flat):
			m := reSetval.FindStringSubmatch(flat)
			out = append(out, tr.Ev{"e": "setval", "s": m[1], "t": m[2]})
		default:
			out = append(out, tr.Ev{"e": "other", "text": flat})
		}
	}
	return out
}

type dbGen struct {
	sql string
	pan string
}

func guarded(f func() string) dbGen {
	ch := make(chan dbGen, 1)
	go func() {
		var r dbGen
		defer func() {
			if p := recover(); p != nil {
				r.pan = fmt.Sprint(p)
			}
			ch <- r
		}()
		r.sql = f()
	}()
	select {
	case r := <-ch:
		return r
	case <-time.After(20 * time.Second):
		return dbGen{pan: "timeout"}
	}
}

func runDbScript(in, out string, _ []string) error {
	w, err := tr.NewWriter(out)
	if err != nil {
		return err
	}
	defer w.Close()
	logrus.SetOutput(io.Discard)
	logger := logrus.New()
	logger.SetOutput(io.Discard)
	return tr.ReadLines(in, func(line []byte) error {
		var sc dbScenario
		if err := json.Unmarshal(line, &sc); err != nil {
			return err
		}
		rng := rand.New(rand.NewSource(sc.Seed*977 + int64(sc.ID)))
		dbKeepOrder = sc.KeepOrder
		begin := tr.Ev{"t": sc.ID, "e": "begin", "versions": sc.Versions}
		texts := []map[string]string{}
		mods := []*sysl.Module{}
		for _, v := range sc.Versions {
			files := dbRender(v, rng, sc.Split)
			texts = append(texts, files)
			fs := afero.NewMemMapFs()
			for n, c := range files {
				_ = afero.WriteFile(fs, n, []byte(c), 0o644)
			}
			m, err := parse.NewParser().ParseFromFs("main.sysl", fs)
			if err != nil {
				w.EmitAll([]tr.Ev{begin, {"t": sc.ID, "e": "compilefail", "msg": err.Error()}})
				return nil
			}
			mods = append(mods, m)
		}
		if sc.Text {
			begin["text"] = texts
		}
		w.Emit(begin)
		w.Flush() // the table-depth fix-point may recurse without bound
		emit := func(which string, a, b int, g dbGen) {
			ev := tr.Ev{"t": sc.ID, "e": "script", "which": which, "va": a, "vb": b}
			switch {
			case g.pan == "timeout":
				ev["e"], ev["kind"] = "scriptfail", "timeout"
			case g.pan != "":
				ev["e"], ev["kind"], ev["msg"] = "scriptfail", "panic", g.pan
			default:
				ev["stmts"] = dbParse(g.sql)
				if sc.Text {
					ev["sql"] = g.sql
				}
			}
			w.Emit(ev)
		}
		// every distinct text of sc.Reps generations is judged
		emitN := func(which string, a, b int, f func() dbGen) {
			n := sc.Reps
			if n < 1 {
				n = 1
			}
			seen := map[string]bool{}
			for i := 0; i < n; i++ {
				g := f()
				if key := g.pan + "\x00" + g.sql; !seen[key] {
					seen[key] = true
					emit(which, a, b, g)
				}
			}
		}
		for i, m := range mods {
			m := m
			emitN("create", i+1, i+1, func() dbGen {
				return guarded(func() string {
					v := database.MakeDatabaseScriptView("t", logger)
					return v.GenerateDatabaseScriptCreate(m.GetApps()["Db"].GetTypes(), "postgres", "Db")
				})
			})
		}
		delta := func(a, b int) dbGen {
			return guarded(func() string {
				v := database.MakeDatabaseScriptView("t", logger)
				outs := v.ProcessModSysls(mods[a].GetApps(), mods[b].GetApps(), []string{"Db"}, "", "postgres")
				bts, _ := json.Marshal(outs)
				_ = bts
				return scriptContent(outs)
			})
		}
		for i := 0; i+1 < len(mods); i++ {
			i := i
			emitN("delta", i+1, i+2, func() dbGen { return delta(i, i+1) })
		}
		for i := range mods {
			emit("delta", i+1, i+1, delta(i, i))
		}
		w.Emit(tr.Ev{"t": sc.ID, "e": "end"})
		return nil
	})
}

// scriptContent materialises the script outputs through the package's own writer.
func scriptContent(outs []database.ScriptOutput) string {
	fs := afero.NewMemMapFs()
	logger := logrus.New()
	logger.SetOutput(io.Discard)
	if err := database.GenerateFromSQLMap(outs, fs, logger); err != nil {
		return "/*error*/ UNREADABLE " + err.Error() + ";"
	}
	var b strings.Builder
	for _, name := range []string{"Db.sql", "/Db.sql"} {
		if c, err := afero.ReadFile(fs, name); err == nil {
			b.Write(c)
			break
		}
	}
	return b.String()
}
