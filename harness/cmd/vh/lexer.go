package main

// Lexer family (C03 layer 2): drives the real SyslLexer over line skeletons and
// records the structural token stream (INDENT / DEDENT / first code token of a line).

import (
	"encoding/json"
	"fmt"
	"strings"

	"github.com/antlr/antlr4/runtime/Go/antlr"
	parser "github.com/anz-bank/sysl/pkg/grammar"

	"verifharness/internal/tr"
)

func init() { families["lexer"] = runLexer }

type lxLine struct {
	Kind string   `json:"kind"`
	Lead []string `json:"lead"`
}

type lxScenario struct {
	Lines []lxLine `json:"lines"`
}

func lexStructure(text string) (toks []string, pan string) {
	defer func() {
		if p := recover(); p != nil {
			pan = fmt.Sprint(p)
		}
	}()
	lexer := parser.NewThreadSafeSyslLexer(antlr.NewInputStream(text))
	defer parser.DeleteLexerState(lexer)
	lastLine := -1
	toks = []string{}
	for i := 0; i < 100000; i++ {
		t := lexer.NextToken()
		switch t.GetTokenType() {
		case antlr.TokenEOF:
			return toks, ""
		case parser.SyslLexerINDENT:
			toks = append(toks, "INDENT")
		case parser.SyslLexerDEDENT:
			toks = append(toks, "DEDENT")
		case parser.SyslLexerNEWLINE, parser.SyslLexerNEWLINE_2, parser.SyslLexerEMPTY_LINE,
			parser.SyslLexerINDENTED_COMMENT, parser.SyslLexerEMPTY_COMMENT, parser.SyslLexerSYSL_COMMENT:
		default:
			if t.GetChannel() != antlr.TokenDefaultChannel {
				continue
			}
			if t.GetLine() != lastLine {
				lastLine = t.GetLine()
				toks = append(toks, "CODE")
			}
		}
	}
	return toks, "token limit"
}

func runLexer(in, out string, _ []string) error {
	w, err := tr.NewWriter(out)
	if err != nil {
		return err
	}
	defer w.Close()
	n := 0
	return tr.ReadLines(in, func(line []byte) error {
		var sc lxScenario
		if err := json.Unmarshal(line, &sc); err != nil {
			return err
		}
		var b strings.Builder
		for i, ln := range sc.Lines {
			b.WriteString(strings.Join(ln.Lead, ""))
			switch ln.Kind {
			case "code":
				b.WriteString(fmt.Sprintf("name%d", i))
			case "comment":
				b.WriteString([]string{"# note", "#", "# "}[(i+len(sc.Lines))%3])
			}
			b.WriteString("\n")
		}
		toks, pan := lexStructure(b.String())
		n++
		ev := tr.Ev{"t": n, "e": "lex", "lines": sc.Lines, "toks": toks, "text": b.String()}
		if pan != "" {
			ev["panic"] = pan
		}
		w.Emit(ev)
		return nil
	})
}
