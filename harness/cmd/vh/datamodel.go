package main

// DataModel family (C15): compiles a program, generates the per-application data-model diagrams
// with the real generator and records classes, fields and relationship lines.

import (
	"encoding/json"
	"fmt"
	"io"
	"regexp"
	"sort"
	"strings"
	"time"

	"github.com/anz-bank/sysl/pkg/cmdutils"
	"github.com/anz-bank/sysl/pkg/datamodeldiagram"
	"github.com/anz-bank/sysl/pkg/mermaid"
	mermaiddata "github.com/anz-bank/sysl/pkg/mermaid/datamodeldiagram"
	"github.com/anz-bank/sysl/pkg/sysl"
	"github.com/sirupsen/logrus"

	"verifharness/internal/project"
	"verifharness/internal/render"
	"verifharness/internal/tr"
)

func init() { families["datamodel"] = runDataModel }

type dmScenario struct {
	ID     int           `json:"id"`
	Decls  []render.Decl `json:"decls"`
	Seed   int64         `json:"seed"`
	Text   bool          `json:"text"`
	Direct bool          `json:"direct"`
	// Mermaid: also draw the whole module with the Mermaid data-model generator (beyond the listed properties)
	Mermaid bool `json:"mermaid"`
	// Whole: also draw one diagram of the whole module (no project, one output file): references between
	// applications then have both ends in the diagram
	Whole bool `json:"whole"`
}

var (
	reMdClass = regexp.MustCompile(`^class (\S+) \{$`)
	reMdLink  = regexp.MustCompile(`^(\S+) <-- (\S+)$`)
	reMdField = regexp.MustCompile(`^(\S+) (\S+)$`)
)

// dmMermaid draws the module with the Mermaid generator: classes, [class, member, type text] lines and
// [referring class, referred class] links, the class names mapped back to "App.Type" labels.
func dmMermaid(m *sysl.Module, t int, labels []string) tr.Ev {
	ev := tr.Ev{"t": t, "e": "mermaid", "present": false, "classes": [][]string{}, "fields": [][]string{}, "edges": [][]string{},
		"unknown": []string{}, "msg": ""}
	type res struct {
		text string
		err  error
		pan  string
	}
	ch := make(chan res, 1)
	go func() {
		var r res
		defer func() {
			if p := recover(); p != nil {
				r.pan = fmt.Sprint(p)
			}
			ch <- r
		}()
		r.text, r.err = mermaiddata.GenerateFullDataDiagram(m)
	}()
	var r res
	select {
	case r = <-ch:
	case <-time.After(20 * time.Second):
		r.pan = "timeout"
	}
	if r.pan != "" || r.err != nil {
		ev["msg"] = fmt.Sprint(r.pan, r.err)
		return ev
	}
	back := map[string]string{}
	for _, l := range labels {
		c := mermaid.CleanString(l)
		if o, has := back[c]; has && o != l {
			ev["msg"] = "type names collide in their Mermaid spelling"
			return ev
		}
		back[c] = l
	}
	name := func(c string) string {
		if l, ok := back[c]; ok {
			return l
		}
		return "?" + c
	}
	classes, fields, edges, unknown := [][]string{}, [][]string{}, [][]string{}, []string{}
	cur := ""
	for _, raw := range strings.Split(r.text, "\n") {
		l := strings.TrimSpace(raw)
		switch {
		case l == "" || strings.HasPrefix(l, "%%") || l == "classDiagram":
		case reMdClass.MatchString(l):
			cur = name(reMdClass.FindStringSubmatch(l)[1])
			classes = append(classes, []string{cur, ""})
		case l == "}":
			cur = ""
		case cur == "" && reMdLink.MatchString(l):
			g := reMdLink.FindStringSubmatch(l)
			edges = append(edges, []string{name(g[1]), name(g[2])})
		case cur != "" && reMdField.MatchString(l):
			g := reMdField.FindStringSubmatch(l)
			fields = append(fields, []string{cur, g[2], g[1]})
		default:
			unknown = append(unknown, l)
		}
	}
	ev["present"], ev["classes"], ev["fields"], ev["edges"], ev["unknown"] = true, classes, fields, edges, unknown
	return ev
}

var (
	reDmClass = regexp.MustCompile(`^(?:class|enum) "(.*)" as (\S+)(?: << \(([A-Z]),\S+\)\s?([^>]*)>>)? \{$`)
	reDmItem  = regexp.MustCompile(`^[A-Za-z_][A-Za-z0-9_]*$`)
	reDmField = regexp.MustCompile(`^([+\-#~]?)\s*(\S+) : (.*)$`)
	reDmEdge  = regexp.MustCompile(`^(_\d+) (\S*--\S*|\.\.>) (?:"([^"]*)" )?(_\d+)(?: : (.*))?$`)
)

type dmDiagram struct {
	Classes [][]string `json:"classes"` // [label, kind letter]
	Fields  [][]string `json:"fields"`  // [class label, field, type text]
	Edges   [][]string `json:"edges"`   // [from label, to label, multiplicity]
	Unknown []string   `json:"unknown"`
	Undecl  []string   `json:"undeclared"`
}

func dmParse(text string) dmDiagram {
	d := dmDiagram{Classes: [][]string{}, Fields: [][]string{}, Edges: [][]string{}, Unknown: []string{}, Undecl: []string{}}
	alias := map[string]string{}
	cur := ""
	for _, raw := range strings.Split(text, "\n") {
		l := strings.TrimSpace(raw)
		switch {
		case l == "" || strings.HasPrefix(l, "'") || strings.HasPrefix(l, "@") || strings.HasPrefix(l, "title") ||
			strings.HasPrefix(l, "skinparam") || strings.HasPrefix(l, "hide") || strings.HasPrefix(l, "scale") ||
			strings.HasPrefix(l, "left to right") || l == "}" && cur == "":
			continue
		case l == "}":
			cur = ""
		case reDmClass.MatchString(l):
			m := reDmClass.FindStringSubmatch(l)
			alias[m[2]] = m[1]
			d.Classes = append(d.Classes, []string{m[1], m[3]})
			cur = m[1]
		case cur != "" && reDmItem.MatchString(l): // enum item
			continue
		case cur != "" && reDmField.MatchString(l):
			m := reDmField.FindStringSubmatch(l)
			// the type as shown: emphasis and key stereotypes are presentation
			ty := strings.ReplaceAll(m[3], "**", "")
			ty = strings.TrimSpace(regexp.MustCompile(`\s*<<[A-Z]+>>\s*$`).ReplaceAllString(ty, ""))
			d.Fields = append(d.Fields, []string{cur, m[2], ty})
		case cur == "" && reDmEdge.MatchString(l):
			m := reDmEdge.FindStringSubmatch(l)
			from, ok1 := alias[m[1]]
			to, ok2 := alias[m[4]]
			if !ok1 || !ok2 {
				// the source class, if it is declared: a line to a type that is not drawn in this diagram
				d.Undecl = append(d.Undecl, from)
				continue
			}
			d.Edges = append(d.Edges, []string{from, to, m[3]})
		default:
			d.Unknown = append(d.Unknown, l)
		}
	}
	return d
}

// dmLabelParts describes the declared type of a field: the collection it is wrapped in ("", Set, Sequence, List) and
// the primitive name or the reference as written from the field's application (Type, Type.field, Other.Type).
func dmLabelParts(t *sysl.Type, app string) (wrap, base string) {
	switch x := t.GetType().(type) {
	case *sysl.Type_Set:
		wrap, t = "Set", x.Set
	case *sysl.Type_Sequence:
		wrap, t = "Sequence", x.Sequence
	case *sysl.Type_List_:
		wrap, t = "List", x.List.GetType()
	}
	switch x := t.GetType().(type) {
	case *sysl.Type_Primitive_:
		return wrap, strings.ToLower(x.Primitive.String())
	case *sysl.Type_TypeRef:
		ref := x.TypeRef.GetRef()
		parts := ref.GetPath()
		if ref.GetAppname() != nil && len(ref.GetAppname().GetPart()) > 0 && project.AppName(ref.GetAppname()) != app {
			parts = append([]string{project.AppName(ref.GetAppname())}, parts...)
		}
		return wrap, strings.Join(parts, ".")
	}
	return wrap, "?"
}

// dmModel lists the types of one application ([label, kind]) and the fields of its tuples and
// tables ([class label, field, label of the referred type or ""]).
func dmModel(m *sysl.Module, app string) (types [][]string, fields [][]string) {
	types, fields = [][]string{}, [][]string{}
	a := m.GetApps()[app]
	names := []string{}
	for n := range a.GetTypes() {
		names = append(names, n)
	}
	sort.Strings(names)
	// a reference to a field (T.f) from a tuple is not a reference to the type in the sense of the
	// property: a line for it is neither required nor forbidden (marked by a trailing "?")
	target := func(t *sysl.Type, fromTuple bool) string {
		for {
			switch x := t.GetType().(type) {
			case *sysl.Type_Set:
				t = x.Set
				continue
			case *sysl.Type_Sequence:
				t = x.Sequence
				continue
			case *sysl.Type_List_:
				t = x.List.GetType()
				continue
			case *sysl.Type_TypeRef:
				ref := x.TypeRef.GetRef()
				ap := app
				if ref.GetAppname() != nil && len(ref.GetAppname().GetPart()) > 0 {
					ap = project.AppName(ref.GetAppname())
				}
				if len(ref.GetPath()) == 0 {
					return ""
				}
				if len(ref.GetPath()) > 1 && fromTuple {
					return ap + "." + ref.GetPath()[0] + "?"
				}
				return ap + "." + ref.GetPath()[0]
			}
			return ""
		}
	}
	for _, n := range names {
		t := a.GetTypes()[n]
		label := app + "." + n
		var defs map[string]*sysl.Type
		switch x := t.GetType().(type) {
		case *sysl.Type_Tuple_:
			types = append(types, []string{label, "tuple"})
			defs = x.Tuple.GetAttrDefs()
		case *sysl.Type_Relation_:
			types = append(types, []string{label, "relation"})
			defs = x.Relation.GetAttrDefs()
		case *sysl.Type_Enum_:
			types = append(types, []string{label, "enum"})
		case *sysl.Type_Primitive_:
			types = append(types, []string{label, "alias"})
		default:
			types = append(types, []string{label, "optional"})
		}
		fns := []string{}
		for f := range defs {
			fns = append(fns, f)
		}
		sort.Strings(fns)
		for _, f := range fns {
			_, isTuple := t.GetType().(*sysl.Type_Tuple_)
			wrap, base := dmLabelParts(defs[f], app)
			fields = append(fields, []string{label, f, target(defs[f], isTuple), wrap, base})
		}
	}
	return types, fields
}

func dmGenerate(m *sysl.Module, direct bool) (map[string]string, error, string) {
	type res struct {
		out map[string]string
		err error
		pan string
	}
	ch := make(chan res, 1)
	go func() {
		var r res
		defer func() {
			if p := recover(); p != nil {
				r.pan = fmt.Sprint(p)
			}
			ch <- r
		}()
		logger := logrus.New()
		logger.SetOutput(io.Discard)
		p := &cmdutils.CmdContextParamDatagen{Direct: direct, Project: "Proj", Output: "%(epname).png", Title: "t", ClassFormat: "%(classname)"}
		r.out, r.err = datamodeldiagram.GenerateDataModels(p, m, logger)
	}()
	select {
	case r := <-ch:
		return r.out, r.err, r.pan
	case <-time.After(20 * time.Second):
		return nil, nil, "timeout"
	}
}

// dmGenerateWhole draws every application of the module into one diagram (the command without a project).
func dmGenerateWhole(m *sysl.Module) (map[string]string, error, string) {
	type res struct {
		out map[string]string
		err error
		pan string
	}
	ch := make(chan res, 1)
	go func() {
		var r res
		defer func() {
			if p := recover(); p != nil {
				r.pan = fmt.Sprint(p)
			}
			ch <- r
		}()
		logger := logrus.New()
		logger.SetOutput(io.Discard)
		p := &cmdutils.CmdContextParamDatagen{Direct: true, Output: "all.png", Title: "t", ClassFormat: "%(classname)"}
		r.out, r.err = datamodeldiagram.GenerateDataModels(p, m, logger)
	}()
	select {
	case r := <-ch:
		return r.out, r.err, r.pan
	case <-time.After(20 * time.Second):
		return nil, nil, "timeout"
	}
}

func runDataModel(in, out string, _ []string) error {
	w, err := tr.NewWriter(out)
	if err != nil {
		return err
	}
	defer w.Close()
	logrus.SetOutput(io.Discard)
	return tr.ReadLines(in, func(line []byte) error {
		var sc dmScenario
		if err := json.Unmarshal(line, &sc); err != nil {
			return err
		}
		res := render.Render(sc.Decls, render.Layout{Seed: sc.Seed, Canonical: true})
		// a project application with one view per application (project manner)
		seen := map[string]bool{}
		proj := []string{"Proj:"}
		for _, d := range sc.Decls {
			if d.K == "app" && !seen[d.Name] {
				seen[d.Name] = true
				proj = append(proj, "    "+strings.ReplaceAll(d.Name, " :: ", "_")+"_view:", "        "+d.Name)
			}
		}
		res.Files[0].Lines = append(res.Files[0].Lines, proj...)
		cr := compileFiles(res.Files, "main.sysl")
		if cr.panic != "" || cr.err != nil {
			w.Emit(tr.Ev{"t": sc.ID * 10, "e": "compilefail", "msg": fmt.Sprint(cr.panic, cr.err)})
			return nil
		}
		p := project.Module(cr.m, project.Options{})
		outs, err, pan := dmGenerate(cr.m, sc.Direct)
		k := 0
		for _, app := range sortedAppNames(cr.m) {
			if app == "Proj" {
				continue
			}
			k++
			tid := sc.ID*10 + k
			var facts [][]string
			for _, f := range p.Facts {
				if f[1] == app {
					switch f[0] {
					case "type", "field", "alias", "enum", "union":
						facts = append(facts, f)
					}
				}
			}
			// every type of the model, for "refers to another drawn type"
			var types [][]string
			for _, f := range p.Facts {
				if f[0] == "type" {
					types = append(types, []string{f[1], f[2], f[3]})
				}
			}
			mtypes, mfields := dmModel(cr.m, app)
			begin := tr.Ev{"t": tid, "e": "begin", "scn": sc.ID, "app": app, "mtypes": mtypes, "mfields": mfields}
			_, _ = facts, types
			if sc.Text {
				begin["text"] = res.Files[0].Text()
			}
			switch {
			case pan == "timeout":
				w.Emit(begin)
				w.Emit(tr.Ev{"t": tid, "e": "timeout"})
			case pan != "":
				w.Emit(begin)
				w.Emit(tr.Ev{"t": tid, "e": "panic", "msg": pan})
			case err != nil:
				w.Emit(begin)
				w.Emit(tr.Ev{"t": tid, "e": "error", "msg": err.Error()})
			default:
				key := strings.ReplaceAll(app, " :: ", "_") + "_view.png"
				if sc.Direct {
					key = app + ".png"
				}
				txt, ok := outs[key]
				d := dmParse(txt)
				// classes the property neither requires nor forbids (unions, aliases of collections or references)
				drawn := map[string]bool{}
				for _, c := range d.Classes {
					drawn[c[0]] = true
				}
				mt := [][]string{}
				for _, t := range mtypes {
					if t[1] == "optional" {
						if !drawn[t[0]] {
							continue
						}
						t = []string{t[0], "alias"}
					}
					mt = append(mt, t)
				}
				begin["mtypes"] = mt
				ev := tr.Ev{"t": tid, "e": "diagram", "present": ok, "classes": d.Classes, "fields": d.Fields, "edges": d.Edges,
					"unknown": d.Unknown, "undeclared": d.Undecl}
				if sc.Text {
					ev["puml"] = txt
				}
				w.Emit(begin)
				w.Emit(ev)
			}
		}
		if sc.Whole && pan == "" && err == nil {
			all, allf := [][]string{}, [][]string{}
			for _, app := range sortedAppNames(cr.m) {
				if app == "Proj" {
					continue
				}
				mt, mf := dmModel(cr.m, app)
				all, allf = append(all, mt...), append(allf, mf...)
			}
			tid := sc.ID*10 + 8
			begin := tr.Ev{"t": tid, "e": "begin", "scn": sc.ID, "app": "+", "mtypes": all, "mfields": allf}
			wouts, werr, wpan := dmGenerateWhole(cr.m)
			switch {
			case wpan == "timeout":
				w.Emit(begin)
				w.Emit(tr.Ev{"t": tid, "e": "timeout"})
			case wpan != "":
				w.Emit(begin)
				w.Emit(tr.Ev{"t": tid, "e": "panic", "msg": wpan})
			case werr != nil:
				w.Emit(begin)
				w.Emit(tr.Ev{"t": tid, "e": "error", "msg": werr.Error()})
			default:
				txt, ok := wouts["all.png"]
				d := dmParse(txt)
				drawn := map[string]bool{}
				for _, c := range d.Classes {
					drawn[c[0]] = true
				}
				mt := [][]string{}
				for _, t := range all {
					if t[1] == "optional" {
						if !drawn[t[0]] {
							continue
						}
						t = []string{t[0], "alias"}
					}
					mt = append(mt, t)
				}
				begin["mtypes"] = mt
				w.Emit(begin)
				w.Emit(tr.Ev{"t": tid, "e": "diagram", "present": ok, "classes": d.Classes, "fields": d.Fields, "edges": d.Edges,
					"unknown": d.Unknown, "undeclared": d.Undecl})
			}
		}
		if sc.Mermaid && pan == "" && err == nil {
			// the whole module: the types and fields of every application
			all, allf, labels := [][]string{}, [][]string{}, []string{}
			for _, app := range sortedAppNames(cr.m) {
				if app == "Proj" {
					continue
				}
				mt, mf := dmModel(cr.m, app)
				all, allf = append(all, mt...), append(allf, mf...)
				for _, t := range mt {
					labels = append(labels, t[0])
				}
				// targets that are not declared anywhere keep their name too
				for _, f := range mf {
					if tg := strings.TrimSuffix(f[2], "?"); tg != "" {
						labels = append(labels, tg)
					}
				}
			}
			tid := sc.ID*10 + 9
			w.Emit(tr.Ev{"t": tid, "e": "begin", "scn": sc.ID, "app": "*", "mtypes": all, "mfields": allf})
			w.Emit(dmMermaid(cr.m, tid, labels))
		}
		return nil
	})
}
