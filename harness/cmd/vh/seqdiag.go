package main

// SeqDiagram family (C13): compiles a program, generates the sequence diagram for a start
// endpoint with the real generator (guarded, bounded) and records the PlantUML lines as events.

import (
	"encoding/json"
	"fmt"
	"io"
	"math/rand"
	"regexp"
	"sort"
	"strings"
	"time"

	"github.com/anz-bank/sysl/pkg/cmdutils"
	mermaidseq "github.com/anz-bank/sysl/pkg/mermaid/sequencediagram"
	"github.com/anz-bank/sysl/pkg/sequencediagram"
	"github.com/anz-bank/sysl/pkg/sysl"
	"github.com/sirupsen/logrus"

	"verifharness/internal/project"
	"verifharness/internal/render"
	"verifharness/internal/tr"
)

func init() { families["seqdiag"] = runSeqDiag }

type sdScenario struct {
	ID     int           `json:"id"`
	Decls  []render.Decl `json:"decls"`
	Seed   int64         `json:"seed"`
	Starts []string      `json:"starts"` // "App <- ep"; empty = every endpoint of the model
	Text   bool          `json:"text"`
	Raw    bool          `json:"raw"` // include raw diagram lines
	// Opts: draw each start also with options: up to two other endpoints as blackboxes and grouping by the attribute "team"
	Opts bool `json:"opts"`
	// Mermaid: also draw each plain start with the Mermaid sequence generator (beyond the listed properties)
	Mermaid bool `json:"mermaid"`
	// Project: also draw up to four endpoints as the diagrams of a project application (`sysl sd -o %(epname).puml -a Proj`):
	// one called endpoint is a blackbox of the project, and the second diagram names the same blackbox itself
	Project bool `json:"project"`
}

// sdProject appends a project application to the program and draws its diagrams; every diagram becomes a trace of its own
// whose begin event carries the blackboxes of the project (pcut) and of the diagram (cut).
func sdProject(w *tr.Writer, sc sdScenario, files []*render.File, eps []sdEp, nextID func() int) {
	var starts [][]string
	var called [][]string
	var walk func(ss []sdStmt)
	walk = func(ss []sdStmt) {
		for _, s := range ss {
			if s.K == "call" {
				called = append(called, []string{s.App, s.Ep})
			}
			walk(s.Kids)
		}
	}
	for _, e := range eps {
		if len(e.Stmts) > 0 && len(starts) < 4 && !strings.Contains(e.Ep, "->") {
			starts = append(starts, []string{e.App, e.Ep})
		}
		walk(e.Stmts)
	}
	// the blackbox: a called endpoint that is not itself drawn as a diagram of the project
	var bb []string
	for _, c := range called {
		isStart := false
		for _, st := range starts {
			isStart = isStart || (st[0] == c[0] && st[1] == c[1])
		}
		if !isStart {
			bb = c
			break
		}
	}
	if len(starts) < 3 || bb == nil {
		return
	}
	key := bb[0] + " <- " + bb[1]
	lines := []string{fmt.Sprintf("Proj [blackboxes=[[%q, \"cut at the level of the project\"]]]:", key)}
	names := []string{}
	cuts := map[string][][]string{}
	var extra []string
	if len(starts) > 3 {
		extra, starts = starts[3], starts[:3]
	}
	for i, st := range starts {
		n := fmt.Sprintf("SEQ-%c", 'A'+i)
		h := "    " + n
		cuts[n] = [][]string{}
		if i == 1 {
			h += fmt.Sprintf(" [blackboxes=[[%q, \"cut at the level of the diagram\"]]]", key)
			cuts[n] = [][]string{bb}
		}
		lines = append(lines, h+":", "        "+st[0]+" <- "+st[1])
		if i == 0 && extra != nil {
			// the first diagram draws two endpoints one after the other
			lines = append(lines, "        "+extra[0]+" <- "+extra[1])
		}
		names = append(names, n)
	}
	fs := []*render.File{{Name: files[0].Name, Lines: append(append([]string{}, files[0].Lines...), lines...)}}
	fs = append(fs, files[1:]...)
	cr := compileFiles(fs, "main.sysl")
	if cr.panic != "" || cr.err != nil {
		return
	}
	type res struct {
		out map[string]string
		err error
		pan string
	}
	ch := make(chan res, 1)
	go func() {
		var r res
		defer func() {
			if p := recover(); p != nil {
				r.pan = fmt.Sprint(p)
			}
			ch <- r
		}()
		logger := logrus.New()
		logger.SetOutput(io.Discard)
		p := &cmdutils.CmdContextParamSeqgen{Output: "%(epname).puml", AppsFlag: []string{"Proj"}, Title: "t",
			AppFormat: "%(appname)", EndpointFormat: "%(epname)"}
		r.out, r.err = sequencediagram.DoConstructSequenceDiagrams(p, cr.m, logger)
	}()
	var r res
	select {
	case r = <-ch:
	case <-time.After(30 * time.Second):
		r.pan = "timeout"
	}
	for i, n := range names {
		id := nextID()
		st := starts[i]
		begin := tr.Ev{"t": id, "e": "begin", "scn": sc.ID, "start": st[0] + " <- " + st[1], "sapp": st[0], "sep": st[1], "eps": eps,
			"cut": cuts[n], "pcut": [][]string{bb}, "groups": map[string]string{}, "group": "", "project": n}
		if i == 0 && extra != nil {
			begin["starts"] = [][]string{st, extra}
		}
		evs := []tr.Ev{begin}
		switch {
		case r.pan != "":
			evs = append(evs, tr.Ev{"t": id, "e": map[bool]string{true: "timeout", false: "panic"}[r.pan == "timeout"], "msg": r.pan})
		case r.err != nil:
			evs = append(evs, tr.Ev{"t": id, "e": "error", "msg": r.err.Error()})
		default:
			evs = append(evs, sdParse(id, r.out[n+".puml"])...)
			evs = append(evs, tr.Ev{"t": id, "e": "end"})
		}
		w.EmitAll(evs)
	}
}

var (
	reMmArrow = regexp.MustCompile(`^(\S+) (-->>|->>) (\S+): (.*)$`)
	reMmOpen  = regexp.MustCompile(`^(alt|opt|loop|par|critical|rect)( .*)?$`)
	reMmElse  = regexp.MustCompile(`^(else|and|option)( .*)?$`)
)

// sdMermaid draws (app, ep) with the Mermaid generator and reports the solid arrows with the application names mapped
// back from their Mermaid spelling, the numbers of block openers and of `end` lines, and the lines that are no
// Mermaid sequence-diagram statement.
func sdMermaid(m *sysl.Module, t int, app, ep string, raw bool) tr.Ev {
	ev := tr.Ev{"t": t, "e": "mermaid", "ok": false, "arrows": [][]string{}, "opens": 0, "ends": 0, "unknown": []string{}, "msg": ""}
	type res struct {
		text string
		err  error
		pan  string
	}
	ch := make(chan res, 1)
	go func() {
		var r res
		defer func() {
			if p := recover(); p != nil {
				r.pan = fmt.Sprint(p)
			}
			ch <- r
		}()
		r.text, r.err = mermaidseq.GenerateSequenceDiagram(m, app, ep)
	}()
	var r res
	select {
	case r = <-ch:
	case <-time.After(20 * time.Second):
		r.pan = "timeout"
	}
	if r.pan != "" || r.err != nil {
		ev["msg"] = fmt.Sprint(r.pan, r.err)
		return ev
	}
	back := map[string]string{"...": "["}
	amb := false
	for an := range m.GetApps() {
		c := strings.ReplaceAll(strings.ReplaceAll(an, " :: ", "_"), "-", "_")
		if o, has := back[c]; has && o != an {
			amb = true
		}
		back[c] = an
	}
	if amb {
		ev["msg"] = "application names collide in their Mermaid spelling"
		return ev
	}
	arrows, unknown := [][]string{}, []string{}
	opens, ends := 0, 0
	for _, raw := range strings.Split(r.text, "\n") {
		l := strings.TrimSpace(raw)
		switch {
		case l == "" || strings.HasPrefix(l, "%%") || l == "sequenceDiagram":
		case l == "end":
			ends++
		case reMmArrow.MatchString(l):
			g := reMmArrow.FindStringSubmatch(l)
			if g[2] == "->>" {
				f, okf := back[g[1]]
				to, okt := back[g[3]]
				if !okf || !okt {
					unknown = append(unknown, l)
					continue
				}
				arrows = append(arrows, []string{f, to, g[4]})
			}
		case reMmOpen.MatchString(l):
			opens++
		case reMmElse.MatchString(l):
		default:
			unknown = append(unknown, l)
		}
	}
	if len(unknown) > 5 {
		unknown = unknown[:5]
	}
	ev["ok"], ev["arrows"], ev["opens"], ev["ends"], ev["unknown"] = true, arrows, opens, ends, unknown
	if raw {
		ev["raw"] = r.text
	}
	return ev
}

var (
	reDecl   = regexp.MustCompile(`^(control|actor|participant|boundary|entity|database|collections|queue) "(.*)" as (\S+)$`)
	reArrow  = regexp.MustCompile(`^(\S+?)\s?(->>|->)\s?(\S+?) : (.*)$`)
	reReturn = regexp.MustCompile(`^(\[|\S+?)\s?<--\s?(\S+?) :\s?(.*)$`)
	reStart  = regexp.MustCompile(`^(\[|\S+)(->)(\S+) : (.*)$`)
	reActive = regexp.MustCompile(`^(activate|deactivate) (\S+)$`)
	reOpen   = regexp.MustCompile(`^(opt|alt|loop|group|par)( .*)?$`)
	reElse   = regexp.MustCompile(`^else( .*)?$`)
	reNote   = regexp.MustCompile(`^note `)
	reBox    = regexp.MustCompile(`^box "(.*)"`)
	reBoxMem = regexp.MustCompile(`^participant (\S+)$`)
)

// sdParse turns PlantUML sequence text into events; unknown lines become {"e":"line"} events.
func sdParse(t int, text string) []tr.Ev {
	var evs []tr.Ev
	for _, raw := range strings.Split(text, "\n") {
		l := strings.TrimSpace(raw)
		switch {
		case l == "" || strings.HasPrefix(l, "'") || l == "@startuml" || l == "@enduml" ||
			strings.HasPrefix(l, "skinparam") || strings.HasPrefix(l, "title") || strings.HasPrefix(l, "hide ") ||
			strings.HasPrefix(l, "autonumber"):
			continue
		case l == "end" || l == "end box":
			evs = append(evs, tr.Ev{"t": t, "e": "close"})
		case l == "end note":
			continue
		case reNote.MatchString(l):
			evs = append(evs, tr.Ev{"t": t, "e": "note"})
		case strings.HasPrefix(l, "== "):
			evs = append(evs, tr.Ev{"t": t, "e": "sep", "text": strings.Trim(l, "= ")})
		case reBox.MatchString(l):
			evs = append(evs, tr.Ev{"t": t, "e": "open", "kind": "box", "text": reBox.FindStringSubmatch(l)[1]})
		case reBoxMem.MatchString(l):
			evs = append(evs, tr.Ev{"t": t, "e": "boxmember", "alias": reBoxMem.FindStringSubmatch(l)[1]})
		case reDecl.MatchString(l):
			m := reDecl.FindStringSubmatch(l)
			evs = append(evs, tr.Ev{"t": t, "e": "declare", "kind": m[1], "label": m[2], "alias": m[3]})
		case reActive.MatchString(l):
			m := reActive.FindStringSubmatch(l)
			evs = append(evs, tr.Ev{"t": t, "e": m[1], "p": m[2]})
		case reElse.MatchString(l):
			evs = append(evs, tr.Ev{"t": t, "e": "else"})
		case reOpen.MatchString(l):
			m := reOpen.FindStringSubmatch(l)
			evs = append(evs, tr.Ev{"t": t, "e": "open", "kind": m[1], "text": strings.TrimSpace(m[2])})
		case reReturn.MatchString(l):
			m := reReturn.FindStringSubmatch(l)
			evs = append(evs, tr.Ev{"t": t, "e": "return", "to": m[1], "from": m[2], "label": m[3]})
		case reArrow.MatchString(l):
			m := reArrow.FindStringSubmatch(l)
			spaced := strings.Contains(l, " "+m[2]+" ")
			evs = append(evs, tr.Ev{"t": t, "e": "call", "from": m[1], "to": m[3], "label": m[4], "spaced": spaced})
		default:
			evs = append(evs, tr.Ev{"t": t, "e": "line", "text": l})
		}
	}
	return evs
}

type sdStmt struct {
	K    string   `json:"k"`
	App  string   `json:"app"`
	Ep   string   `json:"ep"`
	Kids []sdStmt `json:"kids"`
}

type sdEp struct {
	App   string   `json:"app"`
	Ep    string   `json:"ep"`
	Stmts []sdStmt `json:"stmts"`
}

func sdStmts(ss []*sysl.Statement) []sdStmt {
	out := []sdStmt{}
	for _, s := range ss {
		switch x := s.GetStmt().(type) {
		case *sysl.Statement_Call:
			out = append(out, sdStmt{K: "call", App: project.AppName(x.Call.GetTarget()), Ep: x.Call.GetEndpoint(), Kids: []sdStmt{}})
		case *sysl.Statement_Cond:
			out = append(out, sdStmt{K: "block", Kids: sdStmts(x.Cond.GetStmt())})
		case *sysl.Statement_Loop:
			out = append(out, sdStmt{K: "block", Kids: sdStmts(x.Loop.GetStmt())})
		case *sysl.Statement_LoopN:
			out = append(out, sdStmt{K: "block", Kids: sdStmts(x.LoopN.GetStmt())})
		case *sysl.Statement_Foreach:
			out = append(out, sdStmt{K: "block", Kids: sdStmts(x.Foreach.GetStmt())})
		case *sysl.Statement_Group:
			out = append(out, sdStmt{K: "block", Kids: sdStmts(x.Group.GetStmt())})
		case *sysl.Statement_Alt:
			var kids []sdStmt
			for _, c := range x.Alt.GetChoice() {
				kids = append(kids, sdStmt{K: "block", Kids: sdStmts(c.GetStmt())})
			}
			out = append(out, sdStmt{K: "block", Kids: kids})
		default:
			out = append(out, sdStmt{K: "other", Kids: []sdStmt{}})
		}
	}
	return out
}

// sdModel extracts the call tree of every endpoint; dangling reports call targets that do not exist.
func sdModel(m *sysl.Module) (eps []sdEp, dangling bool) {
	have := map[string]bool{}
	for an, a := range m.GetApps() {
		for en := range a.GetEndpoints() {
			have[an+" <- "+en] = true
		}
	}
	var walk func(ss []sdStmt)
	walk = func(ss []sdStmt) {
		for _, s := range ss {
			if s.K == "call" && !have[s.App+" <- "+s.Ep] {
				dangling = true
			}
			walk(s.Kids)
		}
	}
	for _, an := range sortedAppNames(m) {
		a := m.GetApps()[an]
		var names []string
		for en := range a.GetEndpoints() {
			names = append(names, en)
		}
		sort.Strings(names)
		for _, en := range names {
			e := sdEp{App: an, Ep: en, Stmts: sdStmts(a.GetEndpoints()[en].GetStmt())}
			walk(e.Stmts)
			eps = append(eps, e)
		}
	}
	return eps, dangling
}

func sortedAppNames(m *sysl.Module) []string {
	var names []string
	for n := range m.GetApps() {
		names = append(names, n)
	}
	sort.Strings(names)
	return names
}

func genSeqDiag(m *sysl.Module, start string, cut [][]string, group string) (string, error, string) {
	type res struct {
		s   string
		err error
		pan string
	}
	ch := make(chan res, 1)
	go func() {
		var r res
		defer func() {
			if p := recover(); p != nil {
				r.pan = fmt.Sprint(p)
			}
			ch <- r
		}()
		logger := logrus.New()
		logger.SetOutput(io.Discard)
		l := &cmdutils.Labeler{}
		p := &sequencediagram.SequenceDiagParam{Title: "t"}
		p.Endpoints = []string{start}
		p.Group = group
		if len(cut) > 0 {
			p.Blackboxes = map[string]*cmdutils.Upto{}
			for _, c := range cut {
				p.Blackboxes[c[0]+" <- "+c[1]] = &cmdutils.Upto{VisitCount: 0, Comment: "not shown here", ValueType: cmdutils.BBCommandLine}
			}
		}
		p.AppLabeler = l
		p.EndpointLabeler = l
		r.s, r.err = sequencediagram.GenerateSequenceDiag(m, p, logger)
	}()
	select {
	case r := <-ch:
		return r.s, r.err, r.pan
	case <-time.After(20 * time.Second):
		return "", nil, "timeout"
	}
}

func runSeqDiag(in, out string, _ []string) error {
	w, err := tr.NewWriter(out)
	if err != nil {
		return err
	}
	defer w.Close()
	logrus.SetOutput(io.Discard)
	id := 0
	return tr.ReadLines(in, func(line []byte) error {
		var sc sdScenario
		if err := json.Unmarshal(line, &sc); err != nil {
			return err
		}
		res := render.Render(sc.Decls, render.Layout{Seed: sc.Seed, Canonical: true})
		cr := compileFiles(res.Files, "main.sysl")
		if cr.panic != "" || cr.err != nil {
			id++
			w.EmitAll([]tr.Ev{{"t": id, "e": "begin", "scn": sc.ID, "start": "", "facts": [][]string{}},
				{"t": id, "e": "compilefail", "msg": fmt.Sprint(cr.panic, cr.err)}})
			return nil
		}
		eps, dangling := sdModel(cr.m)
		if dangling {
			return nil // calls to undefined endpoints belong to C20
		}
		starts := sc.Starts
		if len(starts) == 0 {
			for _, e := range eps {
				starts = append(starts, e.App+" <- "+e.Ep)
			}
		}
		type variant struct {
			start string
			cut   [][]string
			group string
		}
		var vs []variant
		rng := rand.New(rand.NewSource(sc.Seed*31 + int64(sc.ID)))
		groups := map[string]string{}
		for an, a := range cr.m.GetApps() {
			if at := a.GetAttrs()["team"]; at != nil {
				groups[an] = at.GetS()
			}
		}
		for _, st := range starts {
			vs = append(vs, variant{start: st, cut: [][]string{}})
			if sc.Opts {
				v := variant{start: st, cut: [][]string{}}
				for _, e := range eps {
					if e.App+" <- "+e.Ep != st && len(e.Stmts) > 0 && len(v.cut) < 2 && rng.Intn(3) == 0 {
						v.cut = append(v.cut, []string{e.App, e.Ep})
					}
				}
				if rng.Intn(2) == 0 {
					v.group = "team"
				}
				vs = append(vs, v)
			}
		}
		for _, v := range vs {
			st := v.start
			id++
			parts := strings.SplitN(st, " <- ", 2)
			gr := map[string]string{}
			if v.group != "" {
				gr = groups
			}
			begin := tr.Ev{"t": id, "e": "begin", "scn": sc.ID, "start": st, "sapp": parts[0], "sep": parts[1], "eps": eps,
				"cut": v.cut, "groups": gr, "group": v.group}
			if sc.Text {
				begin["text"] = res.Files[0].Text()
			}
			evs := []tr.Ev{begin}
			s, err, pan := genSeqDiag(cr.m, st, v.cut, v.group)
			switch {
			case pan != "":
				evs = append(evs, tr.Ev{"t": id, "e": map[bool]string{true: "timeout", false: "panic"}[pan == "timeout"], "msg": pan})
			case err != nil:
				evs = append(evs, tr.Ev{"t": id, "e": "error", "msg": err.Error()})
			default:
				if sc.Raw {
					evs = append(evs, tr.Ev{"t": id, "e": "raw", "text": s})
				}
				evs = append(evs, sdParse(id, s)...)
				evs = append(evs, tr.Ev{"t": id, "e": "end"})
			}
			if sc.Mermaid && len(v.cut) == 0 && v.group == "" {
				evs = append(evs, sdMermaid(cr.m, id, parts[0], parts[1], sc.Raw))
			}
			w.EmitAll(evs)
		}
		if sc.Project {
			sdProject(w, sc, res.Files, eps, func() int { id++; return id })
		}
		return nil
	})
}
