package main

// Determinism family (C19): runs every generator R times on the same compiled model (and the
// compile itself R times) and records output digests.

import (
	"bytes"
	"crypto/sha256"
	"encoding/hex"
	"encoding/json"
	"fmt"
	"io"
	"math/rand"
	"os"
	"sort"
	"strings"
	"time"

	"github.com/anz-bank/sysl/pkg/cmdutils"
	"github.com/anz-bank/sysl/pkg/database"
	"github.com/anz-bank/sysl/pkg/sequencediagram"
	"github.com/anz-bank/sysl/pkg/sysl"
	"github.com/sirupsen/logrus"

	"verifharness/internal/project"
	"verifharness/internal/render"
	"verifharness/internal/tr"
)

func init() { families["determinism"] = runDeterminism }

type dtScenario struct {
	ID    int           `json:"id"`
	Decls []render.Decl `json:"decls"`
	Seed  int64         `json:"seed"`
	Reps  int           `json:"reps"`
	// Versions: a history of relational models (spec/DbGen.tla) instead of decls: the last version is the model,
	// and the delta script from the version before it is one more generator
	Versions [][]dbTable `json:"versions"`
	// Project: a project application is appended whose endpoints each draw one sequence diagram (`sysl sd -o %(epname).puml -a Proj`),
	// with the first called endpoint of the model as a blackbox at the level of the project and of one of its endpoints
	Project bool `json:"project"`
}

// projectApp lists up to four endpoints of the model as sequence diagrams of a project application.
func projectApp(m *sysl.Module) []string {
	var starts, called []string
	for _, an := range sortedAppNames(m) {
		a := m.GetApps()[an]
		var eps []string
		for en := range a.GetEndpoints() {
			eps = append(eps, en)
		}
		sort.Strings(eps)
		for _, en := range eps {
			e := a.GetEndpoints()[en]
			if e.GetIsPubsub() || e.GetSource() != nil || len(e.GetStmt()) == 0 {
				continue
			}
			starts = append(starts, an+" <- "+en)
			var walk func(ss []*sysl.Statement)
			walk = func(ss []*sysl.Statement) {
				for _, st := range ss {
					if c := st.GetCall(); c != nil {
						called = append(called, project.AppName(c.GetTarget())+" <- "+c.GetEndpoint())
					}
					for _, kids := range [][]*sysl.Statement{st.GetCond().GetStmt(), st.GetLoop().GetStmt(), st.GetLoopN().GetStmt(),
						st.GetForeach().GetStmt(), st.GetGroup().GetStmt()} {
						walk(kids)
					}
					for _, ch := range st.GetAlt().GetChoice() {
						walk(ch.GetStmt())
					}
				}
			}
			walk(e.GetStmt())
		}
	}
	if len(starts) < 2 || len(called) == 0 {
		return nil
	}
	if len(starts) > 4 {
		starts = starts[:4]
	}
	bb := called[0]
	lines := []string{fmt.Sprintf("Proj [blackboxes=[[%q, \"cut at the level of the project\"]]]:", bb)}
	for i, st := range starts {
		h := fmt.Sprintf("    SEQ-%c", 'A'+i)
		if i == 1 {
			h += fmt.Sprintf(" [blackboxes=[[%q, \"cut at the level of the diagram\"]]]", bb)
		}
		lines = append(lines, h+":", "        "+st)
	}
	return lines
}

func dig(b []byte) string {
	h := sha256.Sum256(b)
	return hex.EncodeToString(h[:8])
}

func runDeterminism(in, out string, _ []string) error {
	w, err := tr.NewWriter(out)
	if err != nil {
		return err
	}
	defer w.Close()
	logrus.SetOutput(io.Discard)
	pid := os.Getpid()
	return tr.ReadLines(in, func(line []byte) error {
		var sc dtScenario
		if err := json.Unmarshal(line, &sc); err != nil {
			return err
		}
		if sc.Reps == 0 {
			sc.Reps = 4
		}
		res := render.Render(sc.Decls, render.Layout{Seed: sc.Seed, Canonical: true})
		var older *sysl.Module
		if n := len(sc.Versions); n > 0 {
			asFiles := func(v []dbTable) []*render.File {
				var fs []*render.File
				for name, text := range dbRender(v, rand.New(rand.NewSource(sc.Seed)), false) {
					fs = append(fs, &render.File{Name: name, Lines: strings.Split(strings.TrimSuffix(text, "\n"), "\n")})
				}
				return fs
			}
			res = &render.Result{Files: asFiles(sc.Versions[n-1])}
			if n > 1 {
				if cr := compileFiles(asFiles(sc.Versions[n-2]), "main.sysl"); cr.panic == "" && cr.err == nil {
					older = cr.m
				}
			}
		}
		if sc.Project && len(sc.Versions) == 0 {
			if cr := compileFiles(res.Files, "main.sysl"); cr.panic == "" && cr.err == nil {
				res.Files[0].Lines = append(res.Files[0].Lines, projectApp(cr.m)...)
			}
		}
		w.Emit(tr.Ev{"t": sc.ID, "e": "begin", "pid": pid})
		w.Flush()
		var m *sysl.Module
		// the compile is a generator too: same text, same model
		for r := 1; r <= sc.Reps; r++ {
			cr := compileFiles(res.Files, "main.sysl")
			if cr.panic != "" || cr.err != nil {
				w.Emit(tr.Ev{"t": sc.ID, "e": "genfail", "g": "compile", "kind": "error", "msg": fmt.Sprint(cr.panic, cr.err)})
				return nil
			}
			m = cr.m
			w.Emit(tr.Ev{"t": sc.ID, "e": "gen", "g": "compile", "k": 0, "input": sc.ID, "run": r, "pid": pid, "digest": digestNoLoc(cr.m)})
		}
		gens := generatorsFor(m)
		if sc.Project && m.GetApps()["Proj"] != nil {
			gens = append(gens, generator{name: "sd.project", f: func(m *sysl.Module) ([]byte, error) {
				p := &cmdutils.CmdContextParamSeqgen{Output: "%(epname).puml", AppsFlag: []string{"Proj"}, Title: "t"}
				out, err := sequencediagram.DoConstructSequenceDiagrams(p, m, quietLogger())
				var names []string
				for n := range out {
					names = append(names, n)
				}
				sort.Strings(names)
				var b bytes.Buffer
				for _, n := range names {
					b.WriteString("== " + n + "\n" + out[n] + "\n")
				}
				return b.Bytes(), err
			}})
		}
		if older != nil {
			gens = append(gens, generator{name: "dbscript.delta", f: func(m *sysl.Module) ([]byte, error) {
				v := database.MakeDatabaseScriptView("t", quietLogger())
				return []byte(scriptContent(v.ProcessModSysls(older.GetApps(), m.GetApps(), []string{"Db"}, "", "postgres"))), nil
			}})
		}
		for k, g := range gens {
			for r := 1; r <= sc.Reps; r++ {
				type res2 struct {
					out      []byte
					err, pan string
				}
				ch := make(chan res2, 1)
				go func() {
					o, e, p := runGen(g, m)
					ch <- res2{o, e, p}
				}()
				var x res2
				select {
				case x = <-ch:
				case <-time.After(30 * time.Second):
					x.pan = "timeout"
				}
				if x.pan != "" {
					w.Emit(tr.Ev{"t": sc.ID, "e": "genfail", "g": g.name, "kind": "panic", "msg": x.pan})
					break
				}
				d := dig(x.out)
				if x.err != "" {
					d = "error:" + dig([]byte(x.err))
				}
				w.Emit(tr.Ev{"t": sc.ID, "e": "gen", "g": g.name, "k": k + 1, "input": sc.ID, "run": r, "pid": pid, "digest": d})
			}
		}
		return nil
	})
}
