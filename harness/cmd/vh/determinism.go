package main

// Determinism family (C19): runs every generator R times on the same compiled model (and the
// compile itself R times) and records output digests.

import (
	"crypto/sha256"
	"encoding/hex"
	"encoding/json"
	"fmt"
	"io"
	"math/rand"
	"os"
	"strings"
	"time"

	"github.com/anz-bank/sysl/pkg/database"
	"github.com/anz-bank/sysl/pkg/sysl"
	"github.com/sirupsen/logrus"

	"verifharness/internal/render"
	"verifharness/internal/tr"
)

func init() { families["determinism"] = runDeterminism }

type dtScenario struct {
	ID    int           `json:"id"`
	Decls []render.Decl `json:"decls"`
	Seed  int64         `json:"seed"`
	Reps  int           `json:"reps"`
	// Versions: a history of relational models (spec/DbGen.tla) instead of decls: the last version is the model,
	// and the delta script from the version before it is one more generator
	Versions [][]dbTable `json:"versions"`
}

func dig(b []byte) string {
	h := sha256.Sum256(b)
	return hex.EncodeToString(h[:8])
}

func runDeterminism(in, out string, _ []string) error {
	w, err := tr.NewWriter(out)
	if err != nil {
		return err
	}
	defer w.Close()
	logrus.SetOutput(io.Discard)
	pid := os.Getpid()
	return tr.ReadLines(in, func(line []byte) error {
		var sc dtScenario
		if err := json.Unmarshal(line, &sc); err != nil {
			return err
		}
		if sc.Reps == 0 {
			sc.Reps = 4
		}
		res := render.Render(sc.Decls, render.Layout{Seed: sc.Seed, Canonical: true})
		var older *sysl.Module
		if n := len(sc.Versions); n > 0 {
			asFiles := func(v []dbTable) []*render.File {
				var fs []*render.File
				for name, text := range dbRender(v, rand.New(rand.NewSource(sc.Seed)), false) {
					fs = append(fs, &render.File{Name: name, Lines: strings.Split(strings.TrimSuffix(text, "\n"), "\n")})
				}
				return fs
			}
			res = &render.Result{Files: asFiles(sc.Versions[n-1])}
			if n > 1 {
				if cr := compileFiles(asFiles(sc.Versions[n-2]), "main.sysl"); cr.panic == "" && cr.err == nil {
					older = cr.m
				}
			}
		}
		w.Emit(tr.Ev{"t": sc.ID, "e": "begin", "pid": pid})
		w.Flush()
		var m *sysl.Module
		// the compile is a generator too: same text, same model
		for r := 1; r <= sc.Reps; r++ {
			cr := compileFiles(res.Files, "main.sysl")
			if cr.panic != "" || cr.err != nil {
				w.Emit(tr.Ev{"t": sc.ID, "e": "genfail", "g": "compile", "kind": "error", "msg": fmt.Sprint(cr.panic, cr.err)})
				return nil
			}
			m = cr.m
			w.Emit(tr.Ev{"t": sc.ID, "e": "gen", "g": "compile", "k": 0, "input": sc.ID, "run": r, "pid": pid, "digest": digestNoLoc(cr.m)})
		}
		gens := generatorsFor(m)
		if older != nil {
			gens = append(gens, generator{name: "dbscript.delta", f: func(m *sysl.Module) ([]byte, error) {
				v := database.MakeDatabaseScriptView("t", quietLogger())
				return []byte(scriptContent(v.ProcessModSysls(older.GetApps(), m.GetApps(), []string{"Db"}, "", "postgres"))), nil
			}})
		}
		for k, g := range gens {
			for r := 1; r <= sc.Reps; r++ {
				type res2 struct {
					out      []byte
					err, pan string
				}
				ch := make(chan res2, 1)
				go func() {
					o, e, p := runGen(g, m)
					ch <- res2{o, e, p}
				}()
				var x res2
				select {
				case x = <-ch:
				case <-time.After(30 * time.Second):
					x.pan = "timeout"
				}
				if x.pan != "" {
					w.Emit(tr.Ev{"t": sc.ID, "e": "genfail", "g": g.name, "kind": "panic", "msg": x.pan})
					break
				}
				d := dig(x.out)
				if x.err != "" {
					d = "error:" + dig([]byte(x.err))
				}
				w.Emit(tr.Ev{"t": sc.ID, "e": "gen", "g": g.name, "k": k + 1, "input": sc.ID, "run": r, "pid": pid, "digest": d})
			}
		}
		return nil
	})
}
