package main

// Layout family (C03 layer 3 on the repository's corpus): applies compositions of
// layout transformations to real .sysl files and compares acceptance and model digest.

import (
	"encoding/json"
	"fmt"
	"io"
	"math/rand"
	"os"
	"path/filepath"
	"strconv"
	"strings"
	"time"

	"github.com/antlr/antlr4/runtime/Go/antlr"
	parser "github.com/anz-bank/sysl/pkg/grammar"
	"github.com/anz-bank/sysl/pkg/parse"
	"github.com/anz-bank/sysl/pkg/sysl"
	"github.com/sirupsen/logrus"
	"github.com/spf13/afero"

	"verifharness/internal/project"
	"verifharness/internal/tr"
)

func init() { families["layout"] = runLayout }

type loOps struct {
	Scale   int    `json:"scale"`
	Tabs    bool   `json:"tabs"`
	Blank   string `json:"blank"`   // none | some | all
	Comment string `json:"comment"` // none | col0 | indented | mixed
}

type loScenario struct {
	ID   int     `json:"id"`
	Repo string  `json:"repo"`
	File string  `json:"file"`
	Ops  []loOps `json:"ops"`
	Seed int64   `json:"seed"`
}

// frozenLines returns the 0-based lines that start inside a multi-line token.
func frozenLines(text string) (frozen map[int]bool) {
	frozen = map[int]bool{}
	defer func() { _ = recover() }()
	lexer := parser.NewThreadSafeSyslLexer(antlr.NewInputStream(text))
	defer parser.DeleteLexerState(lexer)
	lexer.RemoveErrorListeners()
	for i := 0; i < 2000000; i++ {
		t := lexer.NextToken()
		if t.GetTokenType() == antlr.TokenEOF {
			return
		}
		txt := t.GetText()
		body := strings.TrimRight(txt, "\r\n")
		if n := strings.Count(body, "\n"); n > 0 && strings.TrimSpace(body) != "" {
			for k := 1; k <= n; k++ {
				frozen[t.GetLine()-1+k] = true
			}
		}
	}
	return
}

func leadOf(line string) (string, string) {
	i := 0
	for i < len(line) && (line[i] == ' ' || line[i] == '\t') {
		i++
	}
	return line[:i], line[i:]
}

func transform(text string, op loOps, rng *rand.Rand, declLines map[int]bool) string {
	frozen := frozenLines(text)
	lines := strings.Split(text, "\n")
	trailing := strings.HasSuffix(text, "\n")
	if trailing {
		lines = lines[:len(lines)-1]
	}
	var out []string
	for i, line := range lines {
		line = strings.TrimRight(line, "\r")
		if frozen[i] {
			out = append(out, line)
			continue
		}
		lead, rest := leadOf(line)
		if op.Scale > 1 && rest != "" {
			var b strings.Builder
			for _, c := range lead {
				b.WriteString(strings.Repeat(string(c), op.Scale))
			}
			lead = b.String()
		}
		if op.Tabs && rest != "" {
			var b strings.Builder
			j := 0
			for j < len(lead) {
				if j+4 <= len(lead) && lead[j:j+4] == "    " && rng.Intn(2) == 0 {
					b.WriteByte('\t')
					j += 4
				} else {
					b.WriteByte(lead[j])
					j++
				}
			}
			lead = b.String()
		}
		switch op.Blank {
		case "all":
			out = append(out, "")
		case "some":
			if rng.Intn(4) == 0 {
				out = append(out, strings.Repeat(" ", rng.Intn(6)))
			}
		}
		if rest != "" && declLines[i] {
			put := false
			switch op.Comment {
			case "col0":
				put = true
				out = append(out, []string{"# verif layout comment", "#", "# "}[rng.Intn(3)])
			case "indented":
				put = true
				out = append(out, lead+[]string{"# verif layout comment", "#", "##"}[rng.Intn(3)])
			case "mixed":
				if rng.Intn(3) == 0 {
					put = true
					c := []string{"# verif: comment", "#", "#\t"}[rng.Intn(3)]
					if rng.Intn(2) == 0 {
						out = append(out, c)
					} else {
						out = append(out, lead+c)
					}
				}
			}
			_ = put
		}
		out = append(out, lead+rest)
	}
	s := strings.Join(out, "\n")
	if trailing {
		s += "\n"
	}
	return s
}

// declLines: 0-based lines of `file` on which a declared element (application, type, field,
// endpoint, statement, view header) starts, taken from the base compile's recorded locations.
func declLinesOf(m *sysl.Module, file string) map[int]bool {
	out := map[int]bool{}
	if m == nil {
		return out
	}
	p := project.Module(m, project.Options{Locs: true})
	for _, f := range p.Locs {
		if f[0] != "loc" || len(f) < 4 {
			continue
		}
		switch f[1] {
		case "app", "type", "field", "ep", "stmt", "view":
		default:
			continue
		}
		if f[len(f)-3] == file {
			if n, err := strconv.Atoi(f[len(f)-2]); err == nil {
				out[n] = true
			}
		}
	}
	return out
}

func compileOverlay(repo, file, content string) (bool, string, string) {
	ok, d, p, _ := compileOverlayM(repo, file, content)
	return ok, d, p
}

// compileOverlayM compiles with a bound of one minute; a run that exceeds it (the arr.ai importers behind foreign imports
// take seconds each and the machine may be busy) is repeated once with a bound of ten minutes before it counts as a hang.
func compileOverlayM(repo, file, content string) (bool, string, string, *sysl.Module) {
	ok, digest, pan, m := compileOverlayT(repo, file, content, 60*time.Second)
	if pan == "timeout" {
		ok, digest, pan, m = compileOverlayT(repo, file, content, 600*time.Second)
	}
	return ok, digest, pan, m
}

func compileOverlayT(repo, file, content string, limit time.Duration) (bool, string, string, *sysl.Module) {
	base := afero.NewReadOnlyFs(afero.NewBasePathFs(afero.NewOsFs(), repo))
	fs := afero.NewCopyOnWriteFs(base, afero.NewMemMapFs())
	if content != "" {
		_ = afero.WriteFile(fs, file, []byte(content), 0o644)
	}
	type res struct {
		ok     bool
		digest string
		pan    string
		m      *sysl.Module
	}
	ch := make(chan res, 1)
	go func() {
		var r res
		defer func() {
			if p := recover(); p != nil {
				r.pan = fmt.Sprint(p)
			}
			ch <- r
		}()
		m, err := parse.NewParser().ParseFromFs(file, fs)
		if err == nil {
			r.ok = true
			r.m = m
			r.digest = digestNoLoc(m)
		}
	}()
	select {
	case r := <-ch:
		return r.ok, r.digest, r.pan, r.m
	case <-time.After(limit):
		return false, "", "timeout", nil
	}
}

func runLayout(in, out string, _ []string) error {
	w, err := tr.NewWriter(out)
	if err != nil {
		return err
	}
	defer w.Close()
	logrus.SetOutput(io.Discard)
	return tr.ReadLines(in, func(line []byte) error {
		var sc loScenario
		if err := json.Unmarshal(line, &sc); err != nil {
			return err
		}
		b, err := os.ReadFile(filepath.Join(sc.Repo, sc.File))
		if err != nil {
			return err
		}
		text := string(b)
		ok0, d0, p0, m0 := compileOverlayM(sc.Repo, sc.File, "")
		decl := declLinesOf(m0, sc.File)
		evs := []tr.Ev{{"t": sc.ID, "e": "begin", "file": sc.File, "baseaccepted": ok0}}
		if p0 != "" {
			evs = append(evs, tr.Ev{"t": sc.ID, "e": "basepanic", "msg": p0})
		}
		for i, op := range sc.Ops {
			rng := rand.New(rand.NewSource(sc.Seed + int64(i)*131 + int64(sc.ID)))
			v := transform(text, op, rng, decl)
			ok, d, p := compileOverlay(sc.Repo, sc.File, v)
			ev := tr.Ev{"t": sc.ID, "e": "variant", "v": i + 1, "ops": op, "accepted": ok, "digest": d,
				"base": d0, "baseaccepted": ok0}
			if p != "" {
				ev["panic"] = p
			}
			evs = append(evs, ev)
		}
		evs = append(evs, tr.Ev{"t": sc.ID, "e": "ret", "ok": true})
		w.EmitAll(evs)
		return nil
	})
}
