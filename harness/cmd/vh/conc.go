package main

// Concurrency family (C07): compiles the same sources sequentially and then concurrently in waves
// of goroutines (under the race detector when built with -race), records text and JSON digests,
// and the size of the process-global lexer state map at quiescence.

import (
	"bytes"
	"encoding/json"
	"fmt"
	"io"
	"math/rand"
	"os"
	"runtime"
	"strings"
	"sync"
	"time"

	parser "github.com/anz-bank/sysl/pkg/grammar"
	"github.com/anz-bank/sysl/pkg/parse"
	"github.com/anz-bank/sysl/pkg/pbutil"
	"github.com/sirupsen/logrus"
	"github.com/spf13/afero"

	"verifharness/internal/render"
	"verifharness/internal/tr"
)

func init() { families["conc"] = runConc }

type ccScenario struct {
	ID      int        `json:"id"`
	Sources []ccSource `json:"sources"`
	Waves   int        `json:"waves"`
	Widths  []int      `json:"widths"` // goroutines per wave
	Procs   []int      `json:"procs"`  // GOMAXPROCS per wave
	Seed    int64      `json:"seed"`
	// Cold: the concurrent waves come first (widest first), in a process that has compiled nothing yet; the
	// sequential pass follows.  Lazily filled caches shared between parsers are only written on first use.
	Cold bool `json:"cold"`
}

type ccSource struct {
	Decls []render.Decl     `json:"decls"`
	Text  string            `json:"text"`
	Files map[string]string `json:"files"` // further files reachable through imports of main.sysl
}

func ccCompile(text string, files map[string]string) (string, string, string) {
	fs := afero.NewMemMapFs()
	_ = afero.WriteFile(fs, "main.sysl", []byte(text), 0o644)
	for n, c := range files {
		_ = afero.WriteFile(fs, n, []byte(c), 0o644)
	}
	var pan string
	var td, jd string
	func() {
		defer func() {
			if p := recover(); p != nil {
				pan = fmt.Sprint(p)
			}
		}()
		m, err := parse.NewParser().ParseFromFs("main.sysl", fs)
		if err != nil {
			td, jd = "error:"+dig([]byte(err.Error())), "error"
			return
		}
		var tb, jb bytes.Buffer
		_ = pbutil.FTextPB(&tb, m)
		_ = pbutil.FJSONPB(&jb, m)
		td, jd = dig(tb.Bytes()), dig(jb.Bytes())
	}()
	return td, jd, pan
}

func runConc(in, out string, _ []string) error {
	w, err := tr.NewWriter(out)
	if err != nil {
		return err
	}
	defer w.Close()
	logrus.SetOutput(io.Discard)
	return tr.ReadLines(in, func(line []byte) error {
		var sc ccScenario
		if err := json.Unmarshal(line, &sc); err != nil {
			return err
		}
		texts := make([]string, len(sc.Sources))
		for i, s := range sc.Sources {
			texts[i] = s.Text
			if s.Text == "" {
				texts[i] = render.Render(s.Decls, render.Layout{Seed: sc.Seed, Canonical: true}).Files[0].Text()
			}
		}
		w.Emit(tr.Ev{"t": sc.ID, "e": "begin", "sources": len(texts)})
		w.Flush() // a fatal error of the runtime (memory exhausted by a corrupted shared structure) ends the process
		run := 0
		obs := func(src int, td, jd, pan string, wave int) {
			run++
			if pan != "" {
				w.Emit(tr.Ev{"t": sc.ID, "e": "crash", "src": src, "msg": pan, "wave": wave})
				return
			}
			w.Emit(tr.Ev{"t": sc.ID, "e": "gen", "g": "compile.text", "k": 0, "input": src, "run": run, "pid": wave, "digest": td})
			w.Emit(tr.Ev{"t": sc.ID, "e": "gen", "g": "compile.json", "k": 0, "input": src, "run": run, "pid": wave, "digest": jd})
		}
		// sequential pass: every source once (the baseline, unless the scenario starts cold)
		sequential := func(wave int) {
			for i, t := range texts {
				td, jd, pan := ccCompile(t, sc.Sources[i].Files)
				obs(i, td, jd, pan, wave)
			}
			runtime.GC()
			w.Emit(tr.Ev{"t": sc.ID, "e": "quiescent", "lexerstates": parser.VerifLexerStateCount(), "wave": wave})
		}
		if !sc.Cold {
			sequential(0)
		}
		rng := rand.New(rand.NewSource(sc.Seed))
		for wv := 1; wv <= sc.Waves; wv++ {
			width := sc.Widths[(wv-1)%len(sc.Widths)]
			if sc.Cold && wv == 1 {
				width = 64
			}
			old := runtime.GOMAXPROCS(sc.Procs[(wv-1)%len(sc.Procs)])
			type res struct {
				src         int
				td, jd, pan string
			}
			results := make([]res, width)
			var wg sync.WaitGroup
			for g := 0; g < width; g++ {
				src := rng.Intn(len(texts))
				delay := time.Duration(rng.Intn(300)) * time.Microsecond
				wg.Add(1)
				go func(g, src int) {
					defer wg.Done()
					time.Sleep(delay)
					td, jd, pan := ccCompile(texts[src], sc.Sources[src].Files)
					results[g] = res{src, td, jd, pan}
				}(g, src)
			}
			// a wave that does not come back within ten minutes hangs (a compile takes well under a second): the stacks
			// say where, the event has no action in the specification, and the process ends here
			done := make(chan struct{})
			go func() { wg.Wait(); close(done) }()
			select {
			case <-done:
			case <-time.After(10 * time.Minute):
				buf := make([]byte, 1<<22)
				buf = buf[:runtime.Stack(buf, true)]
				site := "unknown"
				for _, blk := range strings.Split(string(buf), "\n\n") {
					if strings.Contains(blk, "[running]") || strings.Contains(blk, "[runnable]") {
						for _, ln := range strings.Split(blk, "\n") {
							if strings.HasPrefix(ln, "github.com/anz-bank/sysl/") {
								site = strings.TrimPrefix(strings.SplitN(ln, "(", 2)[0], "github.com/anz-bank/sysl/")
								break
							}
						}
						if site != "unknown" {
							break
						}
					}
				}
				w.Emit(tr.Ev{"t": sc.ID, "e": "hang", "wave": wv, "width": width, "site": site})
				w.Flush()
				w.Close()
				os.Exit(0)
			}
			runtime.GOMAXPROCS(old)
			for _, r := range results {
				obs(r.src, r.td, r.jd, r.pan, wv)
			}
			runtime.GC() // let lexer addresses be reused by the next wave
			w.Emit(tr.Ev{"t": sc.ID, "e": "quiescent", "lexerstates": parser.VerifLexerStateCount(), "wave": wv})
		}
		if sc.Cold {
			sequential(sc.Waves + 1)
		}
		return nil
	})
}
