// Package tr writes ndjson trace events and reads ndjson scenarios.
package tr

import (
	"bufio"
	"bytes"
	"encoding/json"
	"io"
	"os"
	"sync"
)

// Ev is one trace event; "t" (trace id) and "e" (event name) are always present.
type Ev map[string]interface{}

// Writer is a concurrency-safe ndjson event sink.
type Writer struct {
	mu sync.Mutex
	w  *bufio.Writer
	f  io.Closer
}

func NewWriter(path string) (*Writer, error) {
	if path == "" || path == "-" {
		return &Writer{w: bufio.NewWriterSize(os.Stdout, 1<<20)}, nil
	}
	f, err := os.Create(path)
	if err != nil {
		return nil, err
	}
	return &Writer{w: bufio.NewWriterSize(f, 1<<20), f: f}, nil
}

// marshal encodes an event without JSON nulls (TLC's Json module rejects them):
// every null becomes an empty array.
func marshal(ev Ev) []byte {
	b, err := json.Marshal(ev)
	if err != nil {
		panic(err)
	}
	if !bytes.Contains(b, []byte("null")) {
		return b
	}
	var v interface{}
	if err := json.Unmarshal(b, &v); err != nil {
		panic(err)
	}
	b, err = json.Marshal(scrub(v))
	if err != nil {
		panic(err)
	}
	return b
}

func scrub(v interface{}) interface{} {
	switch x := v.(type) {
	case nil:
		return []interface{}{}
	case map[string]interface{}:
		for k, e := range x {
			x[k] = scrub(e)
		}
		return x
	case []interface{}:
		for i, e := range x {
			x[i] = scrub(e)
		}
		return x
	}
	return v
}

func (w *Writer) Emit(ev Ev) {
	b := marshal(ev)
	w.mu.Lock()
	w.w.Write(b)
	w.w.WriteByte('\n')
	w.mu.Unlock()
}

// EmitAll writes a batch of events atomically (one trace stays contiguous).
func (w *Writer) EmitAll(evs []Ev) {
	w.mu.Lock()
	for _, ev := range evs {
		b := marshal(ev)
		w.w.Write(b)
		w.w.WriteByte('\n')
	}
	w.mu.Unlock()
}

// Flush makes everything emitted so far durable (used before risky calls).
func (w *Writer) Flush() {
	w.mu.Lock()
	w.w.Flush()
	w.mu.Unlock()
}

func (w *Writer) Close() error {
	w.mu.Lock()
	defer w.mu.Unlock()
	if err := w.w.Flush(); err != nil {
		return err
	}
	if w.f != nil {
		return w.f.Close()
	}
	return nil
}

// ReadLines calls fn for every non-empty line of an ndjson file.
func ReadLines(path string, fn func(line []byte) error) error {
	var r io.Reader = os.Stdin
	if path != "" && path != "-" {
		f, err := os.Open(path)
		if err != nil {
			return err
		}
		defer f.Close()
		r = f
	}
	sc := bufio.NewScanner(r)
	sc.Buffer(make([]byte, 1<<20), 1<<28)
	for sc.Scan() {
		b := sc.Bytes()
		if len(b) == 0 {
			continue
		}
		cp := make([]byte, len(b))
		copy(cp, b)
		if err := fn(cp); err != nil {
			return err
		}
	}
	return sc.Err()
}
