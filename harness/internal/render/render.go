// Package render turns an abstract declaration sequence (the behaviours of
// spec/Frontend.tla) into Sysl source text with seeded, legal layout choices,
// and records where each element was written.
package render

import (
	"fmt"
	"math/rand"
	"strings"
)

type Shape struct {
	P    string   `json:"p"`
	Ref  []string `json:"ref"`
	Size []int    `json:"size"`
	Opt  bool     `json:"opt"`
	Wrap string   `json:"wrap"`
}

type Param struct {
	N    string   `json:"n"`
	Sh   Shape    `json:"sh"`
	Tags []string `json:"tags"`
}

type Part struct {
	Var bool   `json:"var"`
	N   string `json:"n"`
	Sh  *Shape `json:"sh,omitempty"`
}

type Pos struct {
	File string `json:"file"`
	Line int    `json:"line"`
	Col  int    `json:"col"`
}

// Decl is one declaration event; which fields are used depends on K.
type Decl struct {
	K      string     `json:"k"`
	Name   string     `json:"name,omitempty"`
	Long   string     `json:"long,omitempty"`
	Kind   string     `json:"kind,omitempty"`
	Tags   []string   `json:"tags,omitempty"`
	Attrs  [][]string `json:"attrs,omitempty"`
	Sh     *Shape     `json:"sh,omitempty"`
	Pk     bool       `json:"pk,omitempty"`
	Val    any        `json:"val,omitempty"`
	Arr    []string   `json:"arr,omitempty"`
	Lines  []string   `json:"lines,omitempty"`
	Params []Param    `json:"params,omitempty"`
	Parts  []Part     `json:"parts,omitempty"`
	Verb   string     `json:"verb,omitempty"`
	Q      []Param    `json:"q,omitempty"`
	Text   string     `json:"text,omitempty"`
	App    string     `json:"app,omitempty"`
	Ep     string     `json:"ep,omitempty"`
	Src    string     `json:"src,omitempty"`
	Kw     string     `json:"kw,omitempty"`
	Pos    *Pos       `json:"pos,omitempty"`
}

// Layout controls the surface choices.
type Layout struct {
	Seed      int64
	Units     []string // candidate indentation units; one is chosen per block
	Blank     float64  // probability of a blank / whitespace-only line before a line
	Comment   float64  // probability of a whole-line comment before a line
	Canonical bool     // 4 spaces, no blank lines, no comments
	TabMix    float64  // probability of replacing a 4-space unit of a line's leading spaces by a tab
	Scale     int      // repeat every indentation unit this many times (0/1 = unchanged)
}

func TypeText(sh Shape) string {
	var s string
	if sh.P != "" {
		s = sh.P
		switch len(sh.Size) {
		case 1:
			s += fmt.Sprintf("(%d)", sh.Size[0])
		case 2:
			if sh.P == "decimal" {
				s += fmt.Sprintf("(%d.%d)", sh.Size[0], sh.Size[1])
			} else {
				s += fmt.Sprintf("(%d..%d)", sh.Size[0], sh.Size[1])
			}
		}
	} else {
		if sh.Ref[0] != "" {
			s = sh.Ref[0] + "." + strings.Join(sh.Ref[1:], ".")
		} else {
			s = strings.Join(sh.Ref[1:], ".")
		}
	}
	switch sh.Wrap {
	case "set":
		s = "set of " + s
	case "seq":
		s = "sequence of " + s
	}
	if sh.Opt {
		s += "?"
	}
	return s
}

func attribs(tags []string, attrs [][]string, extra ...string) string {
	var parts []string
	parts = append(parts, extra...)
	for _, t := range tags {
		parts = append(parts, "~"+t)
	}
	for _, a := range attrs {
		if len(a) >= 2 && a[1] == "[]" { // an array of strings
			var es []string
			for _, e := range a[2:] {
				es = append(es, fmt.Sprintf("%q", e))
			}
			parts = append(parts, fmt.Sprintf("%s=[%s]", a[0], strings.Join(es, ", ")))
			continue
		}
		parts = append(parts, fmt.Sprintf("%s=%q", a[0], a[1]))
	}
	if len(parts) == 0 {
		return ""
	}
	return " [" + strings.Join(parts, ", ") + "]"
}

func params(ps []Param) string {
	if len(ps) == 0 {
		return ""
	}
	var parts []string
	for _, p := range ps {
		parts = append(parts, p.N+" <: "+TypeText(p.Sh)+attribs(p.Tags, nil))
	}
	return " (" + strings.Join(parts, ", ") + ")"
}

// File is one rendered source file.
type File struct {
	Name  string
	Lines []string
}

type Result struct {
	Files []*File
	Decls []Decl // copies with positions filled in
}

type renderer struct {
	rng    *rand.Rand
	lay    Layout
	files  []*File
	cur    *File
	indent []string // indentation string of the children of each open block
	opens  []string // kind of each open block
}

func (r *renderer) unit() string {
	if r.lay.Canonical || len(r.lay.Units) == 0 {
		return "    "
	}
	u := r.lay.Units[r.rng.Intn(len(r.lay.Units))]
	if r.lay.Scale > 1 {
		var b strings.Builder
		for _, c := range u {
			b.WriteString(strings.Repeat(string(c), r.lay.Scale))
		}
		u = b.String()
	}
	return u
}

func (r *renderer) lead() string {
	if len(r.indent) == 0 {
		return ""
	}
	return r.indent[len(r.indent)-1]
}

// line writes one line at the current indentation and returns its position (line, col of first char).
func (r *renderer) line(text string) (int, int) {
	lead := r.lead()
	if !r.lay.Canonical {
		if r.rng.Float64() < r.lay.Blank {
			if r.rng.Intn(2) == 0 {
				r.cur.Lines = append(r.cur.Lines, "")
			} else {
				r.cur.Lines = append(r.cur.Lines, strings.Repeat(" ", r.rng.Intn(7)))
			}
		}
		if r.rng.Float64() < r.lay.Comment {
			c := []string{"# a comment: with [brackets] <- and -> arrows", "#", "# ", "#!type X:", "##"}[r.rng.Intn(5)]
			if r.rng.Intn(2) == 0 {
				c = lead + c
			}
			r.cur.Lines = append(r.cur.Lines, c)
		}
	}
	if r.lay.TabMix > 0 {
		var b strings.Builder
		for j := 0; j < len(lead); {
			if j+4 <= len(lead) && lead[j:j+4] == "    " && r.rng.Float64() < r.lay.TabMix {
				b.WriteByte('\t')
				j += 4
			} else {
				b.WriteByte(lead[j])
				j++
			}
		}
		lead = b.String()
	}
	r.cur.Lines = append(r.cur.Lines, lead+text)
	return len(r.cur.Lines) - 1, len([]rune(lead))
}

func (r *renderer) open(kind string) {
	r.indent = append(r.indent, r.lead()+r.unit())
	r.opens = append(r.opens, kind)
}

func (r *renderer) close() {
	r.indent = r.indent[:len(r.indent)-1]
	r.opens = r.opens[:len(r.opens)-1]
}

func (r *renderer) file(name string) {
	for _, f := range r.files {
		if f.Name == name {
			r.cur = f
			return
		}
	}
	r.cur = &File{Name: name}
	r.files = append(r.files, r.cur)
}

func pathText(parts []Part) string {
	var b strings.Builder
	for _, p := range parts {
		b.WriteString("/")
		if p.Var {
			b.WriteString("{" + p.N + " <: " + TypeText(*p.Sh) + "}")
		} else {
			b.WriteString(p.N)
		}
	}
	return b.String()
}

// Render renders the declarations; the root file is "main.sysl" unless a file declaration says otherwise.
func Render(decls []Decl, lay Layout) *Result {
	r := &renderer{rng: rand.New(rand.NewSource(lay.Seed)), lay: lay}
	r.file("main.sysl")
	out := make([]Decl, len(decls))
	for i, d := range decls {
		out[i] = d
		set := func(line, col int) {
			out[i].Pos = &Pos{File: r.cur.Name, Line: line, Col: col}
		}
		switch d.K {
		case "file":
			r.file(d.Name)
		case "import":
			r.line("import " + d.Name)
		case "app":
			h := d.Name
			if d.Long != "" {
				h += fmt.Sprintf(" %q", d.Long)
			}
			set(r.line(h + attribs(d.Tags, d.Attrs) + ":"))
			r.open("app")
		case "type":
			kw := map[string]string{"tuple": "!type", "relation": "!table", "enum": "!enum", "union": "!union"}[d.Kind]
			set(r.line(kw + " " + d.Name + attribs(d.Tags, d.Attrs) + ":"))
			r.open("type")
		case "field":
			var extra []string
			if d.Pk {
				extra = append(extra, "~pk")
			}
			set(r.line(d.Name + " <: " + TypeText(*d.Sh) + attribs(d.Tags, d.Attrs, extra...)))
		case "inplace":
			set(r.line(d.Name + " <:"))
			r.open("type")
		case "enumitem":
			v := d.Val
			if f, ok := v.(float64); ok {
				v = int64(f)
			}
			r.line(fmt.Sprintf("%s: %v", d.Name, v))
		case "member":
			r.line(TypeText(*d.Sh))
		case "alias":
			set(r.line("!alias " + d.Name + ":"))
			r.open("alias")
			r.line(TypeText(*d.Sh))
			r.close()
		case "mixin":
			r.line("-|> " + d.Name)
		case "anno":
			if len(d.Arr) > 0 {
				var es []string
				for _, e := range d.Arr {
					es = append(es, fmt.Sprintf("%q", e))
				}
				set(r.line(fmt.Sprintf("@%s = [%s]", d.Name, strings.Join(es, ", "))))
			} else {
				set(r.line(fmt.Sprintf("@%s = %q", d.Name, d.Val)))
			}
		case "ep":
			h := d.Name
			if d.Long != "" {
				h += fmt.Sprintf(" %q", d.Long)
			}
			set(r.line(h + params(d.Params) + attribs(d.Tags, d.Attrs) + ":"))
			r.open("ep")
		case "event":
			set(r.line("<-> " + d.Name + attribs(d.Tags, d.Attrs) + ":"))
			r.open("ep")
		case "sub":
			set(r.line(d.Src + " -> " + d.Name + attribs(d.Tags, d.Attrs) + ":"))
			r.open("ep")
		case "rest":
			r.line(pathText(d.Parts) + ":")
			r.open("rest")
		case "method":
			h := d.Verb
			h += params(d.Params)
			if len(d.Q) > 0 {
				var qs []string
				for _, q := range d.Q {
					qs = append(qs, q.N+"="+TypeText(q.Sh))
				}
				h += " ?" + strings.Join(qs, "&")
			}
			set(r.line(h + attribs(d.Tags, d.Attrs) + ":"))
			r.open("ep")
		case "stmt":
			var t string
			switch d.Kind {
			case "doc":
				// a run of docstring lines: the position is that of the first
				for i, ln := range d.Lines {
					if i == 0 {
						set(r.line("| " + ln))
					} else {
						r.line("| " + ln)
					}
				}
				continue
			case "action":
				t = d.Text
			case "call":
				t = d.App + " <- " + d.Ep
			case "ret":
				t = "return " + d.Text
			}
			set(r.line(t + attribs(d.Tags, d.Attrs)))
		case "block":
			var h string
			switch d.Kw {
			case "label":
				h = d.Text
			case "else":
				h = "else"
			default:
				h = d.Kw + " " + d.Text
			}
			set(r.line(h + ":"))
			r.open("block")
		case "oneof":
			set(r.line("one of:"))
			r.open("oneof")
		case "choice":
			r.line(d.Text + ":")
			r.open("block")
		case "end":
			r.close()
		}
	}
	return &Result{Files: r.files, Decls: out}
}

// Text returns the file content.
func (f *File) Text() string { return strings.Join(f.Lines, "\n") + "\n" }
