// Package project turns a *sysl.Module into the flat fact vocabulary shared with
// the TLA+ specifications (DESIGN.md appendix C).  It is a printer: it reports
// everything it finds; anything it cannot classify becomes an "other" fact.
package project

import (
	"fmt"
	"sort"
	"strconv"
	"strings"

	"github.com/anz-bank/sysl/pkg/sysl"
)

// Fact is a tuple of strings.
type Fact []string

type Options struct {
	Locs      bool // also emit loc facts
	SkipAttrs map[string]bool
}

type P struct {
	Facts []Fact
	Locs  []Fact
	opt   Options
}

func AppName(n *sysl.AppName) string {
	if n == nil {
		return ""
	}
	return strings.Join(n.GetPart(), " :: ")
}

func (p *P) add(f ...string) { p.Facts = append(p.Facts, Fact(f)) }

func (p *P) loc(elem []string, scs []*sysl.SourceContext) {
	if !p.opt.Locs {
		return
	}
	for k, sc := range scs {
		f := append(append(Fact{"loc"}, elem...), strconv.Itoa(k+1), sc.GetFile(),
			strconv.Itoa(int(sc.GetStart().GetLine())), strconv.Itoa(int(sc.GetStart().GetCol())))
		p.Locs = append(p.Locs, f)
		endOK := sc.GetEnd().GetLine() > sc.GetStart().GetLine() ||
			(sc.GetEnd().GetLine() == sc.GetStart().GetLine() && sc.GetEnd().GetCol() >= sc.GetStart().GetCol())
		if !endOK {
			p.Locs = append(p.Locs, append(append(Fact{"loc.endbeforestart"}, elem...), strconv.Itoa(k+1)))
		}
	}
}

// AttrValue renders an attribute value canonically: s"..." / i<n> / n<f> / a[...]
func AttrValue(a *sysl.Attribute) string {
	switch v := a.GetAttribute().(type) {
	case *sysl.Attribute_S:
		return "s" + strconv.Quote(v.S)
	case *sysl.Attribute_I:
		return "i" + strconv.FormatInt(v.I, 10)
	case *sysl.Attribute_N:
		return "n" + strconv.FormatFloat(v.N, 'g', -1, 64)
	case *sysl.Attribute_A:
		parts := []string{}
		for _, e := range v.A.GetElt() {
			parts = append(parts, AttrValue(e))
		}
		return "a[" + strings.Join(parts, ",") + "]"
	case nil:
		return "nil"
	}
	return "?"
}

// attrs emits tag and attr facts; "patterns" is the tag list.
func (p *P) attrs(kind string, key []string, attrs map[string]*sysl.Attribute) {
	names := make([]string, 0, len(attrs))
	for k := range attrs {
		names = append(names, k)
	}
	sort.Strings(names)
	for _, k := range names {
		a := attrs[k]
		if p.opt.SkipAttrs[k] {
			continue
		}
		if k == "patterns" {
			if arr := a.GetA(); arr != nil {
				for _, e := range arr.GetElt() {
					if _, ok := e.GetAttribute().(*sysl.Attribute_S); ok {
						p.Facts = append(p.Facts, append(append(Fact{kind + ".tag"}, key...), e.GetS()))
					} else {
						p.Facts = append(p.Facts, append(append(Fact{"other", kind + ".tag"}, key...), AttrValue(e)))
					}
				}
				continue
			}
		}
		p.Facts = append(p.Facts, append(append(Fact{kind + ".attr"}, key...), k, AttrValue(a)))
		p.loc(append(append([]string{kind + ".attr"}, key...), k), a.GetSourceContexts())
	}
}

func valStr(v *sysl.Value) string {
	if v == nil {
		return ""
	}
	switch x := v.GetValue().(type) {
	case *sysl.Value_I:
		return strconv.FormatInt(x.I, 10)
	case *sysl.Value_S:
		return strconv.Quote(x.S)
	case *sysl.Value_B:
		return strconv.FormatBool(x.B)
	case *sysl.Value_D:
		return strconv.FormatFloat(x.D, 'g', -1, 64)
	case *sysl.Value_Decimal:
		return x.Decimal
	}
	return fmt.Sprintf("%v", v)
}

// constraintStr prints the constraints of a type.  Values implied by another,
// documented one are left out: the int32/int64 ranges implied by the bit width
// and the length implied by a decimal precision.
func constraintStr(cs []*sysl.Type_Constraint) string {
	var parts []string
	for _, c := range cs {
		if c == nil {
			parts = append(parts, "nilconstraint")
			continue
		}
		var q []string
		if c.GetBitWidth() != 0 {
			q = append(q, fmt.Sprintf("bits=%d", c.GetBitWidth()))
		}
		if r := c.GetRange(); r != nil {
			rs := fmt.Sprintf("%s..%s", valStr(r.GetMin()), valStr(r.GetMax()))
			implied := (c.GetBitWidth() == 32 && rs == "-2147483648..2147483647") ||
				(c.GetBitWidth() == 64 && rs == "-9223372036854775808..9223372036854775807")
			if !implied {
				q = append(q, "range="+rs)
			}
		}
		if l := c.GetLength(); l != nil {
			implied := c.GetPrecision() != 0 && l.GetMin() == 0 && l.GetMax() == int64(c.GetPrecision())
			if !implied {
				q = append(q, fmt.Sprintf("len=%d..%d", l.GetMin(), l.GetMax()))
			}
		}
		if c.GetPrecision() != 0 || c.GetScale() != 0 {
			q = append(q, fmt.Sprintf("prec=%d.%d", c.GetPrecision(), c.GetScale()))
		}
		if c.GetResolution() != nil {
			q = append(q, fmt.Sprintf("res=%d^%d", c.GetResolution().GetBase(), c.GetResolution().GetIndex()))
		}
		parts = append(parts, strings.Join(q, ","))
	}
	if len(parts) == 0 {
		return ""
	}
	return "{" + strings.Join(parts, ";") + "}"
}

// TypeStr is the canonical type expression.
func TypeStr(t *sysl.Type) string {
	if t == nil {
		return "nil"
	}
	var s string
	switch x := t.GetType().(type) {
	case *sysl.Type_Primitive_:
		s = strings.ToLower(x.Primitive.String())
	case *sysl.Type_TypeRef:
		ref := x.TypeRef.GetRef()
		s = "ref:"
		if ref.GetAppname() != nil && len(ref.GetAppname().GetPart()) > 0 {
			s += AppName(ref.GetAppname()) + "/"
		}
		s += strings.Join(ref.GetPath(), ".")
	case *sysl.Type_Set:
		s = "set(" + TypeStr(x.Set) + ")"
	case *sysl.Type_Sequence:
		s = "seq(" + TypeStr(x.Sequence) + ")"
	case *sysl.Type_List_:
		s = "list(" + TypeStr(x.List.GetType()) + ")"
	case *sysl.Type_Map_:
		s = "map(" + TypeStr(x.Map.GetKey()) + "," + TypeStr(x.Map.GetValue()) + ")"
	case *sysl.Type_Tuple_:
		s = "tuple"
	case *sysl.Type_Relation_:
		s = "relation"
	case *sysl.Type_Enum_:
		s = "enum"
	case *sysl.Type_OneOf_:
		s = "union"
	case *sysl.Type_NoType_:
		s = "notype"
	case nil:
		s = "untyped"
	default:
		s = "?"
	}
	s += constraintStr(t.GetConstraint())
	if t.GetOpt() {
		s += "?"
	}
	return s
}

func sortedKeys[V any](m map[string]V) []string {
	ks := make([]string, 0, len(m))
	for k := range m {
		ks = append(ks, k)
	}
	sort.Strings(ks)
	return ks
}

func (p *P) typ(app, name string, t *sysl.Type) {
	key := []string{app, name}
	kind := "?"
	switch x := t.GetType().(type) {
	case *sysl.Type_Tuple_:
		kind = "tuple"
		p.fields(app, name, x.Tuple.GetAttrDefs())
	case *sysl.Type_Relation_:
		kind = "relation"
		p.fields(app, name, x.Relation.GetAttrDefs())
		if pk := x.Relation.GetPrimaryKey(); pk != nil {
			for _, a := range pk.GetAttrName() {
				p.add("pk", app, name, a)
			}
		}
		for _, k := range x.Relation.GetKey() {
			p.add("other", "key", app, name, strings.Join(k.GetAttrName(), ","))
		}
		for _, in := range x.Relation.GetInject() {
			p.add("other", "inject", app, name, in)
		}
	case *sysl.Type_Enum_:
		kind = "enum"
		for _, k := range sortedKeys(x.Enum.GetItems()) {
			p.add("enum", app, name, k, strconv.FormatInt(x.Enum.GetItems()[k], 10))
		}
	case *sysl.Type_OneOf_:
		kind = "union"
		for _, m := range x.OneOf.GetType() {
			p.add("union", app, name, TypeStr(m))
		}
	case *sysl.Type_NoType_:
		kind = "empty"
	case nil:
		kind = "untyped"
	default:
		kind = "alias"
		p.add("alias", app, name, TypeStr(t))
	}
	if kind != "alias" && (t.GetOpt() || len(t.GetConstraint()) > 0) {
		p.add("other", "type.optorconstraint", app, name, TypeStr(t))
	}
	p.add("type", app, name, kind)
	p.attrs("type", key, t.GetAttrs())
	if t.GetDocstring() != "" {
		p.add("type.doc", app, name, t.GetDocstring())
	}
	p.loc([]string{"type", app, name}, t.GetSourceContexts())
}

func (p *P) fields(app, tname string, defs map[string]*sysl.Type) {
	for _, f := range sortedKeys(defs) {
		ft := defs[f]
		switch x := ft.GetType().(type) {
		case *sysl.Type_Tuple_: // in-place tuple
			p.add("field", app, tname, f, "inplace"+optq(ft))
			p.fields(app, tname+"."+f, x.Tuple.GetAttrDefs())
		default:
			p.add("field", app, tname, f, TypeStr(ft))
		}
		p.attrs("field", []string{app, tname, f}, ft.GetAttrs())
		if ft.GetDocstring() != "" {
			p.add("field.doc", app, tname, f, ft.GetDocstring())
		}
		p.loc([]string{"field", app, tname, f}, ft.GetSourceContexts())
	}
}

func optq(t *sysl.Type) string {
	if t.GetOpt() {
		return "?"
	}
	return ""
}

func (p *P) stmts(app, ep, prefix string, ss []*sysl.Statement) {
	for i, s := range ss {
		path := prefix + strconv.Itoa(i+1)
		kind, payload := "?", ""
		var kids []*sysl.Statement
		switch x := s.GetStmt().(type) {
		case *sysl.Statement_Action:
			kind, payload = "action", x.Action.GetAction()
		case *sysl.Statement_Call:
			kind, payload = "call", AppName(x.Call.GetTarget())+" <- "+x.Call.GetEndpoint()
			for j, a := range x.Call.GetArg() {
				p.add("stmt.arg", app, ep, path, strconv.Itoa(j+1), a.GetName())
			}
		case *sysl.Statement_Ret:
			kind, payload = "ret", x.Ret.GetPayload()
		case *sysl.Statement_Cond:
			kind, payload, kids = "cond", x.Cond.GetTest(), x.Cond.GetStmt()
		case *sysl.Statement_Loop:
			kind, payload, kids = "loop", x.Loop.GetMode().String()+":"+x.Loop.GetCriterion(), x.Loop.GetStmt()
		case *sysl.Statement_LoopN:
			kind, payload, kids = "loopn", strconv.Itoa(int(x.LoopN.GetCount())), x.LoopN.GetStmt()
		case *sysl.Statement_Foreach:
			kind, payload, kids = "foreach", x.Foreach.GetCollection(), x.Foreach.GetStmt()
		case *sysl.Statement_Group:
			kind, payload, kids = "group", x.Group.GetTitle(), x.Group.GetStmt()
		case *sysl.Statement_Alt:
			kind = "alt"
			p.add("stmt", app, ep, path, kind, "")
			for j, c := range x.Alt.GetChoice() {
				cp := path + "." + strconv.Itoa(j+1)
				p.add("stmt", app, ep, cp, "choice", c.GetCond())
				p.stmts(app, ep, cp+".", c.GetStmt())
			}
		case nil:
			kind = "empty"
		}
		if kind != "alt" {
			p.add("stmt", app, ep, path, kind, payload)
		}
		p.attrs("stmt", []string{app, ep, path}, s.GetAttrs())
		p.loc([]string{"stmt", app, ep, path}, s.GetSourceContexts())
		if kids != nil {
			p.stmts(app, ep, path+".", kids)
		}
	}
}

func (p *P) endpoint(app, name string, e *sysl.Endpoint) {
	if e.GetName() != name {
		p.add("other", "ep.name", app, name, e.GetName())
	}
	switch {
	case e.GetIsPubsub():
		p.add("event", app, name)
	case e.GetSource() != nil:
		p.add("sub", app, name, AppName(e.GetSource()))
	default:
		p.add("ep", app, name)
	}
	if r := e.GetRestParams(); r != nil {
		p.add("ep.rest", app, name, r.GetMethod().String(), r.GetPath())
		for i, q := range r.GetQueryParam() {
			p.add("qparam", app, name, strconv.Itoa(i+1), q.GetName(), TypeStr(q.GetType()))
		}
		for i, q := range r.GetUrlParam() {
			p.add("urlparam", app, name, strconv.Itoa(i+1), q.GetName(), TypeStr(q.GetType()))
		}
	}
	for i, prm := range e.GetParam() {
		p.add("param", app, name, strconv.Itoa(i+1), prm.GetName(), TypeStr(prm.GetType()))
		p.attrs("param", []string{app, name, strconv.Itoa(i + 1)}, prm.GetType().GetAttrs())
	}
	if e.GetLongName() != "" {
		p.add("ep.long", app, name, e.GetLongName())
	}
	if e.GetDocstring() != "" {
		p.add("ep.doc", app, name, e.GetDocstring())
	}
	for _, f := range e.GetFlag() {
		p.add("other", "ep.flag", app, name, f)
	}
	p.attrs("ep", []string{app, name}, e.GetAttrs())
	p.loc([]string{"ep", app, name}, e.GetSourceContexts())
	p.stmts(app, name, "", e.GetStmt())
}

// Module projects a whole module.
func Module(m *sysl.Module, opt Options) *P {
	p := &P{opt: opt}
	for _, key := range sortedKeys(m.GetApps()) {
		a := m.GetApps()[key]
		name := AppName(a.GetName())
		if name != key {
			p.add("other", "app.key", key, name)
		}
		p.add("app", name)
		if a.GetLongName() != "" {
			p.add("app.long", name, a.GetLongName())
		}
		if a.GetDocstring() != "" {
			p.add("app.doc", name, a.GetDocstring())
		}
		p.attrs("app", []string{name}, a.GetAttrs())
		p.loc([]string{"app", name}, a.GetSourceContexts())
		for _, mx := range a.GetMixin2() {
			p.add("mixin", name, AppName(mx.GetName()))
		}
		if a.GetWrapped() != nil {
			p.add("other", "wrapped", name)
		}
		for _, t := range sortedKeys(a.GetTypes()) {
			p.typ(name, t, a.GetTypes()[t])
		}
		for _, e := range sortedKeys(a.GetEndpoints()) {
			p.endpoint(name, e, a.GetEndpoints()[e])
		}
		for _, v := range sortedKeys(a.GetViews()) {
			p.add("view", name, v)
			p.loc([]string{"view", name, v}, a.GetViews()[v].GetSourceContexts())
		}
	}
	for _, im := range m.GetImports() {
		p.add("import", im.GetTarget(), AppName(im.GetName()))
	}
	return p
}

// Strings renders facts as "a|b|c" strings (for digests and debugging).
func Strings(fs []Fact) []string {
	out := make([]string, len(fs))
	for i, f := range fs {
		out[i] = strings.Join(f, "|")
	}
	sort.Strings(out)
	return out
}
